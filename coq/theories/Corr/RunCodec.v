(** Correspondence for C16: every codec of the property against its model.
    Values are exchanged in a flat form: a list of numbers and a list of byte
    strings per value (see [flat_*] below). *)
From Coq Require Export List NArith Bool String.
From NoKV Require Export Base.Bytes Base.Num Base.Varint Base.Crc32c Model.Keys Model.WalCodec
  Model.EntryCodec Model.PercoCodec Model.RaftCodec Model.ManifestCodec Spec.CodecSpec Corr.Common.
Export ListNotations.
Local Open Scope N_scope.

Definition flat := (list N * list bytes)%type.

(** observed outcome of a decoder call *)
Inductive cobs :=
| OPanic                       (* recovered run-time panic *)
| OErr (class : N)             (* an error; 0 = "not classified" *)
| OVal (v : flat).

Inductive case :=
| Cd (k : N) (input : bytes) (obs : cobs) (alloc : N) (expect : option flat)
    (* decoder k on input; expect = the value whose real encoding the input is *)
| Ce (k : N) (v : flat) (out : bytes)          (* encoder k on v gave out *)
| Ck (a b : bytes) (obs : cobs) (ka kb : option flat).
    (* CompareKeys a b; ka/kb = the (cf, ver, ukey) the keys were built from by InternalKey *)

Definition H (s : string) : bytes := unhex s.
Definition b2N (b : bool) : N := if b then 1 else 0.
Definition N2b (n : N) : bool := negb (n =? 0).

Fixpoint list_eqb {A} (f : A -> A -> bool) (a b : list A) : bool :=
  match a, b with
  | [], [] => true
  | x :: a', y :: b' => f x y && list_eqb f a' b'
  | _, _ => false
  end.
Definition flat_eqb (a b : flat) : bool :=
  list_eqb N.eqb (fst a) (fst b) && list_eqb bytes_eqb (snd a) (snd b).

Definition cobs_eqb (a b : cobs) : bool :=
  match a, b with
  | OPanic, OPanic => true
  | OErr x, OErr y => x =? y
  | OVal x, OVal y => flat_eqb x y
  | _, _ => false
  end.

(** ** flat forms *)
Definition flat_peers (ps : list (N * N)) : list N := List.concat (map (fun p => [fst p; snd p]) ps).
Fixpoint unflat_peers (l : list N) : list (N * N) :=
  match l with a :: b :: l' => (a, b) :: unflat_peers l' | _ => [] end.

Definition flat_vlog (t : N) (v : option vlog_meta) : flat :=
  match v with
  | None => ([t; 0], [])
  | Some m => ([t; 1; vl_bucket m; vl_fid m; vl_offset m; b2N (vl_valid m)], [])
  end.

Definition flat_edit (e : edit) : flat :=
  match e with
  | EAddFile f | EDeleteFile f =>
      ([edit_type e; fm_level f; fm_id f; fm_size f; fm_created f; fm_vsize f; b2N (fm_ingest f)],
       [fm_smallest f; fm_largest f])
  | ELogPointer s o => ([2; s; o], [])
  | EVlogHead v => flat_vlog 3 v
  | EVlogDelete v => flat_vlog 4 v
  | EVlogUpdate v => flat_vlog 5 v
  | ERaftPointer None => ([6; 0], [])
  | ERaftPointer (Some r) =>
      ([6; 1; rp_group r; rp_segment r; rp_offset r; rp_applied_idx r; rp_applied_term r; rp_committed r;
        rp_snap_idx r; rp_snap_term r; rp_trunc_idx r; rp_trunc_term r; rp_seg_idx r; rp_trunc_off r], [])
  | ERegion None => ([7; 0], [])
  | ERegion (Some r) =>
      let m := re_meta r in
      (7 :: 1 :: b2N (re_delete r) :: rg_id m :: rg_ver m :: rg_confver m :: rg_state m :: flat_peers (rg_peers m),
       [rg_start m; rg_end m])
  | EUnknown t => ([t], [])
  end.

Definition unflat_vlog (l : list N) : option vlog_meta :=
  match l with
  | [1; b; f; o; v] => Some {| vl_bucket := b; vl_fid := f; vl_offset := o; vl_valid := N2b v |}
  | _ => None
  end.

Definition unflat_edit (v : flat) : edit :=
  match v with
  | ([0; lv; id; sz; cr; vs; ing], [sm; lg]) =>
      EAddFile {| fm_level := lv; fm_id := id; fm_size := sz; fm_smallest := sm; fm_largest := lg;
                  fm_created := cr; fm_vsize := vs; fm_ingest := N2b ing |}
  | ([1; lv; id; sz; cr; vs; ing], [sm; lg]) =>
      EDeleteFile {| fm_level := lv; fm_id := id; fm_size := sz; fm_smallest := sm; fm_largest := lg;
                  fm_created := cr; fm_vsize := vs; fm_ingest := N2b ing |}
  | ([2; s; o], []) => ELogPointer s o
  | (3 :: l, []) => EVlogHead (unflat_vlog l)
  | (4 :: l, []) => EVlogDelete (unflat_vlog l)
  | (5 :: l, []) => EVlogUpdate (unflat_vlog l)
  | ([6; 1; a; b; c; d; e; f; g; h; i; j; k; l], []) =>
      ERaftPointer (Some {| rp_group := a; rp_segment := b; rp_offset := c; rp_applied_idx := d;
        rp_applied_term := e; rp_committed := f; rp_snap_idx := g; rp_snap_term := h; rp_trunc_idx := i;
        rp_trunc_term := j; rp_seg_idx := k; rp_trunc_off := l |})
  | (6 :: _, []) => ERaftPointer None
  | (7 :: 1 :: del :: id :: ver :: cv :: st :: ps, [s; e]) =>
      ERegion (Some {| re_meta := {| rg_id := id; rg_start := s; rg_end := e; rg_ver := ver; rg_confver := cv;
                                     rg_state := st; rg_peers := unflat_peers ps |};
                       re_delete := N2b del |})
  | (7 :: _, _) => ERegion None
  | (t :: _, _) => EUnknown t
  | _ => EUnknown 255
  end.

(** ** model side of each decoder, as an observation *)
Definition obs_of_dres {A} (f : A -> flat) (r : dres A) : cobs :=
  match r with DVal a => OVal (f a) | DErr => OErr 1 | DPanic => OPanic end.

Definition model_dec (k : N) (input : bytes) : cobs :=
  if k =? 1 then      (* kv.DecodeEntryFrom on a bytes.Reader *)
    match decode_entry_from input with
    | EdEof => OErr 1 | EdPartial => OErr 2 | EdBadCrc => OErr 3 | EdOther => OErr 4
    | EdOk e rl rest => OVal ([e_meta e; e_exp e; rl; blen rest], [e_key e; e_val e])
    end
  else if k =? 2 then (* kv.DecodeValueSlice *)
    match decode_value_slice input with
    | VsShort => OErr 1 | VsMeta => OErr 2 | VsBadCrc => OErr 3
    | VsOk v kl vl m e => OVal ([kl; vl; m; e], [v])
    end
  else if k =? 3 then let v := decode_value input in OVal ([v_meta v; v_exp v], [v_value v])
  else if k =? 4 then let p := decode_vptr input in OVal ([p_len p; p_off p; p_fid p; p_bucket p], [])
  else if k =? 5 then
    obs_of_dres (fun l => ([l_ts l; l_ttl l; l_kind l; l_min_commit l], [l_primary l])) (decode_lock input)
  else if k =? 6 then
    obs_of_dres (fun w => ([w_kind w; w_start w], [w_short w])) (decode_write input)
  else if k =? 7 then
    match decode_raft_entries input with
    | None => OErr 1
    | Some (g, bodies) => OVal ([g], bodies)
    end
  else if k =? 8 then
    match decode_raft_blob input with
    | None => OErr 1
    | Some (g, body) => OVal ([g], [body])
    end
  else if k =? 9 then
    match decode_command input with
    | None => OVal ([0], [])
    | Some body => OVal ([1], [body])
    end
  else if k =? 10 then obs_of_dres flat_edit (decode_edit input)
  else if k =? 11 then
    match read_edit input with
    | ReEof => OErr 1 | ReErr => OErr 2 | RePanic => OPanic
    | ReOk e rest => OVal (flat_edit e)
    end
  else if k =? 12 then (* wal.DecodeRecord *)
    match decode_record input with
    | DEof => OErr 1 | DEmpty => OErr 2 | DPartial => OErr 3 | DBadCrc => OErr 4
    | DOk ty p len rest => OVal ([b2n ty; len; blen rest], [p])
    end
  else if k =? 13 then (* kv.SplitInternalKey *)
    let i := split_ikey input in OVal ([ik_cf i; ik_ver i], [ik_ukey i])
  else OErr 0.

Definition model_enc (k : N) (v : flat) : option bytes :=
  match k, v with
  | 1, ([m; e], [key; val]) => Some (enc_entry {| e_key := key; e_val := val; e_meta := m; e_exp := e |})
  | 3, ([m; e], [val]) => Some (enc_value {| v_meta := m; v_exp := e; v_value := val |})
  | 14, ([m; e], [val]) =>   (* the whole buffer of EncodedSize() bytes after EncodeValue *)
      Some (enc_value {| v_meta := m; v_exp := e; v_value := val |})
  | 15, ([m; e], [val]) =>   (* EncodedSize() as 4 big-endian bytes *)
      Some (be32 (encoded_size {| v_meta := m; v_exp := e; v_value := val |}))
  | 4, ([a; b; c; d], []) => Some (enc_vptr {| p_len := a; p_off := b; p_fid := c; p_bucket := d |})
  | 5, ([ts; ttl; kind; mc], [p]) =>
      Some (enc_lock {| l_primary := p; l_ts := ts; l_ttl := ttl; l_kind := kind; l_min_commit := mc |})
  | 6, ([kind; st], [sv]) => Some (enc_write {| w_kind := kind; w_start := st; w_short := sv |})
  | 7, ([g], bodies) => Some (enc_raft_entries g bodies)
  | 8, ([g], [body]) => Some (enc_raft_blob g body)
  | 9, ([], [body]) => Some (enc_command body)
  | 10, _ => Some (enc_edit (unflat_edit v))
  | 12, ([ty], [p]) => Some (enc_record (n2b ty) p)
  | 13, ([cf; ver], [uk]) => Some (enc_ikey {| ik_cf := cf; ik_ukey := uk; ik_ver := ver |})
  | _, _ => None
  end.

Definition cmp_code (c : comparison) : N := match c with Lt => 0 | Eq => 1 | Gt => 2 end.

Definition mk_ikey (v : flat) : option ikey :=
  match v with
  | ([cf; ver], [uk]) => Some {| ik_cf := cf; ik_ukey := uk; ik_ver := ver |}
  | _ => None
  end.

(** raft/command decoders unmarshal the protobuf body after the framing, and
    the harness reports bodies re-marshalled: on malformed inputs an observed
    error may come from protobuf (even as io.ErrUnexpectedEOF) and a decoded
    body may be re-marshalled differently.  For these decoders the framing is
    compared: model error => observed error; model value => observed error
    (protobuf) or a value with the same group id and number of bodies; on the
    valid stream ([expect] given) values are compared exactly. *)
Definition framed (k : N) : bool := (k =? 7) || (k =? 8) || (k =? 9).

Definition framed_mismatch (exact : bool) (m obs : cobs) : bool :=
  match m, obs with
  | OVal a, OVal b =>
      if exact then negb (flat_eqb a b)
      else negb (list_eqb N.eqb (fst a) (fst b) && (N.of_nat (List.length (snd a)) =? N.of_nat (List.length (snd b))))
  | OVal _, OErr _ => exact
  | OErr _, OErr _ => false
  | _, _ => true
  end.

Definition check (c : case) : verdict :=
  match c with
  | Cd k input obs alloc expect =>
      let m := model_dec k input in
      let mismatch :=
        if framed k then framed_mismatch (match expect with Some _ => true | None => false end) m obs
        else negb (cobs_eqb m obs) in
      let violation :=
        (match obs with OPanic => true | _ => false end)
        || negb (alloc_ok (blen input) alloc)
        || (match expect with
            | Some v => negb (cobs_eqb obs (OVal v))
            | None => false
            end) in
      mk_verdict mismatch violation 0
  | Ce k v out =>
      mk_verdict (match model_enc k v with Some b => negb (bytes_eqb b out) | None => true end) false 0
  | Ck a b obs ka kb =>
      let m := match compare_keys a b with Some c => OVal ([cmp_code c], []) | None => OPanic end in
      let violation :=
        match ka, kb with
        | Some fa, Some fb =>
            match mk_ikey fa, mk_ikey fb with
            | Some ia, Some ib =>
                (* the specification: logical order of the keys the bytes were built from *)
                negb (cobs_eqb obs (OVal ([cmp_code (ikey_compare ia ib)], [])))
            | _, _ => true
            end
        | _, _ => false
        end in
      mk_verdict (negb (cobs_eqb m obs)) violation 0
  end.

(** Correspondence for C20.  The harness runs real [latch.Manager.Acquire] /
    [Guard.Release] calls and reports, per case: the stripe count, the observed
    [kv.MemHash] of every key, the requests, the slot list every guard got, the
    linearised trace of critical-section entries/exits (an [Enter] is logged
    after [Acquire] returned, an [Exit] before [Release] is called, so two
    overlapping entries in the log really overlapped), and — in sequential
    cases — the set of locked stripes after every event.

    mismatch: the slot lists differ from [slots_of], or the trace is not a
    trace of the model (an [Enter] whose acquire steps are disabled), or the
    locked stripes differ.  violation: the trace breaks [exclusive] or some
    request never completed (spec oracle, independent of the model). *)
From Coq Require Export List NArith Bool String.
From NoKV Require Export Base.Bytes Base.Sched Model.Latch Spec.LatchSpec Corr.Common.
Export ListNotations.
Local Open Scope N_scope.

Record case := {
  c_n : N;
  c_hash : list (bytes * N);
  c_reqs : list (list bytes);
  c_slots : list (list N);
  c_trace : list ev;
  c_seq : bool;
  c_locked : list (list N);
  c_completed : bool
}.

Fixpoint hash_of (tbl : list (bytes * N)) (k : bytes) : N :=
  match tbl with
  | [] => 0
  | (k', h) :: r => if bytes_eqb k k' then h else hash_of r k
  end.

Fixpoint listN_eqb (a b : list N) : bool :=
  match a, b with
  | [], [] => true
  | x :: a', y :: b' => (x =? y) && listN_eqb a' b'
  | _, _ => false
  end.

Fixpoint all2 {A B} (f : A -> B -> bool) (a : list A) (b : list B) : bool :=
  match a, b with
  | [], [] => true
  | x :: a', y :: b' => f x y && all2 f a' b'
  | _, _ => false
  end.

Definition is_crit (p : pc) := match p with Crit _ => true | _ => false end.
Definition is_fin (p : pc) := match p with Fin => true | _ => false end.

Definition pc_at (g : gstate) (t : nat) : option pc :=
  match nth_error (g_threads g) t with Some th => Some (th_pc th) | None => None end.

(** run thread [t] alone until [target] holds; [None] if a step is disabled *)
Fixpoint drive (fuel : nat) (g : gstate) (t : nat) (target : pc -> bool) : option gstate :=
  match pc_at g t with
  | None => None
  | Some p =>
      if target p then Some g
      else match fuel with
           | O => None
           | S f => match tstep g t with Some g' => drive f g' t target | None => None end
           end
  end.

Definition apply_ev (fuel : nat) (g : gstate) (e : ev) : option gstate :=
  match e with
  | Enter t => match pc_at g t with
               | Some (Acq _ _) => drive fuel g t is_crit
               | Some (Crit []) => Some g          (* empty guard: Acquire locks nothing *)
               | _ => None
               end
  | Exit t => match pc_at g t with
              | Some (Crit _) => drive fuel g t is_fin
              | _ => None
              end
  end.

Definition locked_of (g : gstate) : list N := sortN (map fst (g_locks g)).

(** replays the trace; returns false on the first event the model cannot do
    or (sequential cases) the first difference in the locked set *)
Fixpoint replay (fuel : nat) (seq : bool) (g : gstate) (evs : list ev) (locked : list (list N)) : bool :=
  match evs with
  | [] => true
  | e :: r =>
      match apply_ev fuel g e with
      | None => false
      | Some g' =>
          match seq, locked with
          | true, l :: lr => listN_eqb (locked_of g') l && replay fuel true g' r lr
          | true, [] => false
          | false, _ => replay fuel false g' r locked
          end
      end
  end.

Definition check (c : case) : verdict :=
  let h := hash_of (c_hash c) in
  let slots_ok := all2 (fun ks sl => listN_eqb (slots_of (c_n c) h ks) sl) (c_reqs c) (c_slots c) in
  let fuel := (2 * N.to_nat (c_n c) + 4)%nat in
  let tr_ok := replay fuel (c_seq c) (init (c_n c) h (c_reqs c)) (c_trace c) (c_locked c) in
  mk_verdict (negb (slots_ok && tr_ok))
             (negb (exclusive_b (c_reqs c) [] (c_trace c) && c_completed c &&
                    all_completed_b (List.length (c_reqs c)) (c_trace c)))
             0.

(* compact constructors for the harness *)
Definition E (t : N) : ev := Enter (N.to_nat t).
Definition X (t : N) : ev := Exit (N.to_nat t).
Definition K (s : string) : bytes := unhex s.
Definition H (s : string) (h : N) : bytes * N := (unhex s, h).
Definition Cs n hs reqs slots tr seq locked done : case :=
  {| c_n := n; c_hash := hs; c_reqs := reqs; c_slots := slots; c_trace := tr;
     c_seq := seq; c_locked := locked; c_completed := done |}.

(** Correspondence for C15: real manifest.Manager vs [Model/Manifest.v].
    Versions are exchanged in the canonical form [Spec/ManifestSpec.v: canon] as flat edits.

    [Cm]: LogEdits batches with a rewrite threshold, Close, Verify, Open.
    [Cc]: the same run on a recording vfs.FS that snapshots the directory at every
    operation (and at torn prefixes of every write); each snapshot is reopened by the
    real Verify + Open. *)
From Coq Require Export List NArith Bool String.
From NoKV Require Export Base.Bytes Base.Num Corr.Common.
From NoKV Require Import Model.ManifestCodec Model.Manifest Spec.ManifestSpec Corr.RunCodec.
Export ListNotations.
Local Open Scope N_scope.

Definition flat := RunCodec.flat.
Definition H (s : string) : bytes := unhex s.

Inductive case :=
| Cm (thr : N) (batches : list (list flat)) (mem disk : list flat) (err : N)
    (* Current() before Close, Current() of the reopened manager, 0 = Verify and Open succeeded *)
| Cc (thr : N) (batches : list (list flat)) (crashes : list (N * list (list flat * N)))
| Cf (thr : N) (steps : list (list flat * N * N)) (mem disk : list flat) (err : N)
    (* LogEdits calls on a vfs.FaultFS: per call the batch, the fault armed for it (one shot)
       and whether the call returned an error; then Current(), Close, Verify + Open, Current() *)
| Cr (thr : N) (batches1 batches2 : list (list flat)) (mem disk : list flat) (err : N).
    (* the last LogEdits of batches1 rewrites the manifest and the process dies after the new
       manifest and CURRENT.tmp are written but before the rename (orphan manifest file);
       Verify + Open on that image, batches2 logged (more rewrites), Current() = mem; Close;
       Verify + Open again: Current() = disk *)
    (* per in-flight batch index k: the states recovered from the snapshots taken during
       LogEdits(batch k), each with the error class of Verify/Open (0 = ok) *)

Definition flats_eqb (a b : list flat) : bool := RunCodec.list_eqb RunCodec.flat_eqb a b.
Definition vflat (v : version) : list flat := map RunCodec.flat_edit (canon v).

Definition unflat_batches (bs : list (list flat)) : list (list edit) := map (map RunCodec.unflat_edit) bs.

Definition rr_flat (r : replay_res) : option (list flat) :=
  match r with RpOk v => Some (vflat v) | _ => None end.

Fixpoint upto (n : nat) : list N :=
  match n with O => [0] | S n' => upto n' ++ [N.of_nat (S n')] end.

(** all crash states of the model for [LogEdits m batch], as recovered canonical versions *)
Definition model_crash_states (m : mgr) (batch : list edit) : list (option (list flat)) :=
  let m1 := appended m batch in
  let app_bytes := enc_all batch in
  let s1 := map (fun c => rr_flat (recover (man_set (m_fs m) (m_cur m) (cur_bytes m ++ take c app_bytes))))
                (upto (List.length app_bytes)) in
  if needs_rewrite m1 then
    let snap := enc_all (snapshot_edits (m_ver m1)) in
    let id := new_id m1 in
    s1 ++
    map (fun c => rr_flat (recover (man_set (m_fs m1) id (take c snap)))) (upto (List.length snap)) ++
    [rr_flat (recover (set_tmp (man_set (m_fs m1) id snap) (Some [])));
     rr_flat (recover (set_tmp (set_current (man_set (m_fs m1) id snap) id) None));
     rr_flat (recover (m_fs (rewritten m1)))]
  else s1.

Definition opt_flats_eqb (a : option (list flat)) (b : list flat * N) : bool :=
  match a with
  | Some f => (snd b =? 0) && flats_eqb f (fst b)
  | None => negb (snd b =? 0)
  end.

(** the specification: some prefix length j, acked <= j <= acked + |batch| *)
Fixpoint prefix_state_in (v : version) (rest : list edit) (obs : list flat) : bool :=
  flats_eqb (vflat v) obs ||
  match rest with
  | [] => false
  | e :: rest' => prefix_state_in (apply v e) rest' obs
  end.

Definition check (c : case) : verdict :=
  match c with
  | Cm thr batches mem disk err =>
      let bs := unflat_batches batches in
      let m := log_all (create_new thr) bs in
      mk_verdict (negb (flats_eqb (vflat (m_ver m)) mem
                        && match rr_flat (reload (m_fs m)) with Some f => flats_eqb f disk | None => false end))
                 (negb (flats_eqb mem disk && (err =? 0)))
                 0
  | Cf thr steps mem disk err =>
      let fault_of (n : N) : fault :=
        match n with 1 => FAppendWrite | 2 => FCreate | 3 => FSnapWrite | 4 => FSnapSync
                   | 5 => FTmpWrite | 6 => FRename | _ => FNone end in
      let st := map (fun x => (map RunCodec.unflat_edit (fst (fst x)), fault_of (snd (fst x)))) steps in
      let '(m, errs) := log_all_f (create_new thr) st in
      let errs_ok := RunCodec.list_eqb Bool.eqb errs (map (fun x => negb (snd x =? 0)) steps) in
      mk_verdict (negb (errs_ok && flats_eqb (vflat (m_ver m)) mem
                        && match rr_flat (reload (m_fs m)) with Some f => flats_eqb f disk | None => false end))
                 (negb (flats_eqb mem disk && (err =? 0)))
                 0
  | Cr thr batches1 batches2 mem disk err =>
      let bs1 := unflat_batches batches1 in
      let m := log_all (create_new thr) (removelast bs1) in
      let m1 := appended m (last bs1 []) in
      let snap := enc_all (snapshot_edits (m_ver m1)) in
      let crashfs := set_tmp (man_set (m_fs m1) (new_id m1) snap) (Some []) in
      let model_ok :=
        needs_rewrite m1 &&
        match open_mgr thr crashfs with
        | None => false
        | Some m2 =>
            let m3 := log_all m2 (unflat_batches batches2) in
            flats_eqb (vflat (m_ver m3)) mem &&
            match rr_flat (reload (m_fs m3)) with Some f => flats_eqb f disk | None => false end
        end in
      mk_verdict (negb model_ok) (negb (flats_eqb mem disk && (err =? 0))) 0
  | Cc thr batches crashes =>
      let bs := unflat_batches batches in
      let res := map (fun kc =>
        let k := N.to_nat (fst kc) in
        let m := log_all (create_new thr) (firstn k bs) in
        let batch := nth k bs [] in
        let states := model_crash_states m batch in
        let mism := existsb (fun o => negb (existsb (fun s => opt_flats_eqb s o) states)) (snd kc) in
        let viol := existsb (fun o => negb ((snd o =? 0) && prefix_state_in (m_ver m) batch (fst o))) (snd kc) in
        (mism, viol)) crashes in
      mk_verdict (existsb fst res) (existsb snd res) 0
  end.

(** Correspondence for C15: real manifest.Manager (LogEdits with a rewrite
    threshold, Close, Verify, Open) vs [Model/Manifest.v: apply].  Versions are
    exchanged in canonical form (Spec/ManifestSpec.v: canon) as flat edits. *)
From Coq Require Export List NArith Bool String.
From NoKV Require Export Base.Bytes Base.Num Corr.Common.
From NoKV Require Import Model.ManifestCodec Model.Manifest Spec.ManifestSpec Corr.RunCodec.
Export ListNotations.
Local Open Scope N_scope.

Definition flat := RunCodec.flat.
Definition H (s : string) : bytes := unhex s.

Record case := {
  c_threshold : N;            (* rewrite threshold in bytes, 0 = disabled *)
  c_edits : list flat;        (* edits logged, in order *)
  c_mem : list flat;          (* canonical Manager.Current() before Close *)
  c_disk : list flat;         (* canonical Current() of a manager reopened on the directory *)
  c_err : N                   (* 0 = Verify and Open succeeded *)
}.
Definition Cm t e m d x := {| c_threshold := t; c_edits := e; c_mem := m; c_disk := d; c_err := x |}.

Definition flats_eqb (a b : list flat) : bool := RunCodec.list_eqb RunCodec.flat_eqb a b.

Definition check (c : case) : verdict :=
  let es := map RunCodec.unflat_edit (c_edits c) in
  let m := map RunCodec.flat_edit (canon (apply_all empty_version es)) in
  mk_verdict (negb (flats_eqb m (c_mem c)))
             (negb (flats_eqb (c_mem c) (c_disk c) && (c_err c =? 0)))
             0.

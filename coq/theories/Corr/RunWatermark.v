(** Correspondence for C32.  The harness runs threads of Begin/Done/WaitForMark
    operations on a real [utils.WaterMark] (small window) under the controlled
    scheduler and reports after every grant: thread, ran, yield point (tag),
    DoneUntil, LastIndex, base and slot counts of the current window.

    mismatch: any of these differs from the model ([tstep true]).
    violation (independent of the model): from the tags alone the oracle
    reconstructs which indices are outstanding — a Begin i takes effect at its
    first write (the grant leaving [addIndex.add], or a successful
    [setLastIndex.cas]) and is counted if LastIndex was below i just before;
    it stops being outstanding at the grant of its Done leaving [addIndex.add]
    — and checks that DoneUntil never decreases and stays below every
    outstanding index.  known class 1 (C32-F28): the run contains a window
    rebuild ([rebuildWindowLocked.store] was reached). *)
From Coq Require Export List NArith ZArith Bool.
From NoKV Require Export Base.Sched Model.SchedLib Model.Watermark Spec.WatermarkSpec Corr.Common.
Export ListNotations.
Local Open Scope N_scope.

Record step := { s_t : nat; s_ran : bool; s_tag : N; s_du : N; s_li : N; s_base : N; s_slots : list Z }.
Record case := { c_size : nat; c_progs : list (list op); c_steps : list step; c_rebuilt : bool }.

Definition pc_tag (p : pc) : N :=
  match p with
  | PStart => 0 | SLLoad => 1 | SLCas _ => 2
  | EWLoad _ => 3 | EWLock _ => 4 | EWReload _ => 5 | EWUnlock _ _ => 6
  | RBDone _ _ => 7 | RBCopy _ _ _ _ _ => 8 | RBStore _ _ _ => 9 | EWFinal _ => 10
  | ADAdd _ => 11
  | TADone => 12 | TALast _ => 13 | TAWin _ => 14 | TASlot _ _ => 15 | TACas _ => 16
  | NTLock _ => 17 | NTClose _ => 18
  | WFast => 19 | WLock => 20 | WCheck => 21 | WSelect => 22
  | PFin => 99
  end.

Definition is_some {A} (o : option A) : bool := match o with Some _ => true | None => false end.

Fixpoint listZ_eqb (a b : list Z) : bool :=
  match a, b with
  | [], [] => true
  | x :: a', y :: b' => (x =? y)%Z && listZ_eqb a' b'
  | _, _ => false
  end.

Fixpoint agree (g : gstate) (steps : list step) : bool :=
  match steps with
  | [] => true
  | s :: r =>
      let o := tstep true g (s_t s) in
      let g' := match o with Some g' => g' | None => g end in
      let w := win_at g' (g_cur g') in
      Bool.eqb (is_some o) (s_ran s) &&
      match nth_error (g_threads g') (s_t s) with
      | Some th => pc_tag (th_pc th) =? s_tag s
      | None => false
      end &&
      (g_done g' =? s_du s) && (g_last g' =? s_li s) && (fst w =? s_base s) && listZ_eqb (snd w) (s_slots s) &&
      agree g' r
  end.

(** ---- the oracle: outstanding indices from tags ---- *)
Record tstate := { ts_done : nat; ts_prev : N; ts_eff : bool }.   (* completed ops, previous tag, Begin took effect *)

Fixpoint observe (progs : list (list op)) (ts : list tstate) (li : N) (out : list N) (steps : list step)
  : list obs :=
  match steps with
  | [] => []
  | s :: r =>
      let t := s_t s in
      match nth_error ts t, s_ran s with
      | Some st, true =>
          let o := nth (ts_done st) (nth t progs []) (Wait 0) in
          let first_write :=
            match o with
            | Begin i => negb (ts_eff st) &&
                         ((ts_prev st =? 11) || ((ts_prev st =? 2) && (s_li s =? i) && negb (li =? i)))
            | _ => false
            end in
          let out' :=
            match o with
            | Begin i => if first_write && (li <? i) then i :: out else out
            | Done i => if ts_prev st =? 11 then remove_one i out else out
            | Wait _ => out
            end in
          let finished := (s_tag s =? 0) || (s_tag s =? 99) in
          let st' := {| ts_done := if finished then S (ts_done st) else ts_done st;
                        ts_prev := s_tag s;
                        ts_eff := if finished then false else (ts_eff st || first_write) |} in
          (s_du s, out') :: observe progs (set_nth t st' ts) (s_li s) out' r
      | _, _ => (s_du s, out) :: observe progs ts (s_li s) out r
      end
  end.

Definition check (c : case) : verdict :=
  let tr := observe (c_progs c) (map (fun _ => {| ts_done := 0; ts_prev := 0; ts_eff := false |}) (c_progs c))
                    0 [] (c_steps c) in
  let viol := negb (trace_safe_b tr && monotone_from_b 0 tr) in
  mk_verdict (negb (agree (init (c_size c) (c_progs c)) (c_steps c)))
             viol
             (if viol && c_rebuilt c then 1 else 0).

Definition St (t : N) (ran : bool) (tag du li base : N) (slots : list Z) : step :=
  {| s_t := N.to_nat t; s_ran := ran; s_tag := tag; s_du := du; s_li := li; s_base := base; s_slots := slots |}.
Definition Cs (size : N) (progs : list (list op)) (steps : list step) (rebuilt : bool) : case :=
  {| c_size := N.to_nat size; c_progs := progs; c_steps := steps; c_rebuilt := rebuilt |}.

(** Correspondence for C32.  The harness runs threads of Begin/Done/WaitForMark
    operations on a real [utils.WaterMark] (small window) under the controlled
    scheduler and reports after every grant: thread, ran, yield point (tag),
    DoneUntil, LastIndex, base and slot counts of the current window.

    mismatch: any of these differs from the model ([tstep true]).
    violation (independent of the model): from the tags alone the oracle
    reconstructs which indices are outstanding — a Begin i takes effect at its
    first write (the grant leaving [addIndex.add], or a successful
    [setLastIndex.cas]) and is counted if LastIndex was below i just before;
    it stops being outstanding at the grant of its Done leaving [addIndex.add]
    — and checks that DoneUntil never decreases and stays below every
    outstanding index.  known class 1 (C32-F28): the run contains a window
    rebuild ([rebuildWindowLocked.store] was reached). *)
From Coq Require Export List NArith ZArith Bool.
From NoKV Require Export Base.Sched Model.SchedLib Model.Watermark Spec.WatermarkSpec Corr.Common.
Export ListNotations.
Local Open Scope N_scope.

Record step := { s_t : nat; s_ran : bool; s_tag : N; s_du : N; s_li : N; s_base : N; s_slots : list Z }.
(** API-level programs as the harness runs them *)
Inductive aop := ABegin (i : N) | ADone (i : N) | AWait (i : N) | ABeginMany (l : list N) | ADoneMany (l : list N).

Fixpoint begin_parts (first : bool) (l : list N) : list op :=
  match l with
  | [] => []
  | [i] => [if first then Begin i else BeginL i]
  | i :: r => (if first then BeginF i else BeginC i) :: begin_parts false r
  end.
Fixpoint done_parts (first : bool) (l : list N) : list op :=
  match l with
  | [] => []
  | i :: r => (if first then Done i else DoneC i) :: done_parts false r
  end.
Definition desugar (a : aop) : list op :=
  match a with
  | ABegin i => [Begin i] | ADone i => [Done i] | AWait i => [Wait i]
  | ABeginMany l => begin_parts true l
  | ADoneMany l => done_parts true l
  end.
Definition elems (a : aop) : list N :=
  match a with ABegin i | ADone i | AWait i => [i] | ABeginMany l | ADoneMany l => l end.

Record case := { c_size : nat; c_progs : list (list aop); c_steps : list step; c_rebuilt : bool }.

Definition pc_tag (p : pc) : N :=
  match p with
  | PStart => 0 | SLLoad => 1 | SLCas _ => 2
  | EWLoad _ => 3 | EWLock _ => 4 | EWReload _ => 5 | EWUnlock _ _ => 6
  | RBDone _ _ => 7 | RBCopy _ _ _ _ _ => 8 | RBStore _ _ _ => 9 | EWFinal _ => 10
  | ADAdd _ => 11
  | TADone => 12 | TALast _ => 13 | TAWin _ => 14 | TASlot _ _ => 15 | TACas _ => 16
  | NTLock _ => 17 | NTClose _ => 18
  | WFast => 19 | WLock => 20 | WCheck => 21 | WSelect => 22
  | PFin => 99
  end.

Definition is_some {A} (o : option A) : bool := match o with Some _ => true | None => false end.

Fixpoint listZ_eqb (a b : list Z) : bool :=
  match a, b with
  | [], [] => true
  | x :: a', y :: b' => (x =? y)%Z && listZ_eqb a' b'
  | _, _ => false
  end.

Fixpoint agree (g : gstate) (steps : list step) : bool :=
  match steps with
  | [] => true
  | s :: r =>
      let o := tstep true g (s_t s) in
      let g' := match o with Some g' => g' | None => g end in
      let w := win_at g' (g_cur g') in
      Bool.eqb (is_some o) (s_ran s) &&
      match nth_error (g_threads g') (s_t s) with
      | Some th => pc_tag (th_pc th) =? s_tag s
      | None => false
      end &&
      (g_done g' =? s_du s) && (g_last g' =? s_li s) && (fst w =? s_base s) && listZ_eqb (snd w) (s_slots s) &&
      agree g' r
  end.

(** ---- the oracle: outstanding indices from tags ---- *)
Record tstate := { ts_done : nat; ts_prev : N; ts_eff : bool; ts_sub : nat }.
  (* completed API calls, previous tag, single Begin took effect, slot updates done in this call *)

Fixpoint observe (progs : list (list aop)) (ts : list tstate) (li : N) (out : list N) (steps : list step)
  : list obs :=
  match steps with
  | [] => []
  | s :: r =>
      let t := s_t s in
      match nth_error ts t, s_ran s with
      | Some st, true =>
          let o := nth (ts_done st) (nth t progs []) (AWait 0) in
          let e := nth (ts_sub st) (elems o) 0 in          (* element whose slot update is next *)
          let added := ts_prev st =? 11 in                 (* this grant left addIndex.add *)
          let first_write :=
            match o with
            | ABegin i => negb (ts_eff st) &&
                          (added || ((ts_prev st =? 2) && (s_li s =? i) && negb (li =? i)))
            | _ => false
            end in
          let out' :=
            match o with
            | ABegin i => if first_write && (li <? i) then i :: out else out
            | ABeginMany _ => if added && (li <? e) then e :: out else out
            | ADone _ | ADoneMany _ => if added then remove_one e out else out
            | AWait _ => out
            end in
          let finished := (s_tag s =? 0) || (s_tag s =? 99) in
          let st' := {| ts_done := if finished then S (ts_done st) else ts_done st;
                        ts_prev := s_tag s;
                        ts_eff := if finished then false else (ts_eff st || first_write);
                        ts_sub := if finished then O else if added then S (ts_sub st) else ts_sub st |} in
          (s_du s, out') :: observe progs (set_nth t st' ts) (s_li s) out' r
      | _, _ => (s_du s, out) :: observe progs ts (s_li s) out r
      end
  end.

Definition check (c : case) : verdict :=
  let tr := observe (c_progs c) (map (fun _ => {| ts_done := 0; ts_prev := 0; ts_eff := false; ts_sub := 0 |}) (c_progs c))
                    0 [] (c_steps c) in
  let viol := negb (trace_safe_b tr && monotone_from_b 0 tr) in
  let ok := agree (init (c_size c) (map (flat_map desugar) (c_progs c))) (c_steps c) in
  (* known class 1 (C32-F28): the run contains a window rebuild AND the model — which contains the
     rebuild race — reproduces the run step by step *)
  mk_verdict (negb ok) viol (if viol && c_rebuilt c && ok then 1 else 0).

Definition St (t : N) (ran : bool) (tag du li base : N) (slots : list Z) : step :=
  {| s_t := N.to_nat t; s_ran := ran; s_tag := tag; s_du := du; s_li := li; s_base := base; s_slots := slots |}.
Definition Begin := ABegin.
Definition Done := ADone.
Definition Wait := AWait.
Definition BeginMany := ABeginMany.
Definition DoneMany := ADoneMany.
Definition Cs (size : N) (progs : list (list aop)) (steps : list step) (rebuilt : bool) : case :=
  {| c_size := N.to_nat size; c_progs := progs; c_steps := steps; c_rebuilt := rebuilt |}.

(** Correspondence for C25: the Go harness calls [validateRegionEpoch],
    [validateRequestKeys], [keyInRange] and [trimScanResponse] (through
    raftstore/store/region_export_verif.go) and reports their results; the
    model is Model/CmdValidate.v, the oracles are [owned_b], [in_range_b],
    [shaped_b]/[trim_ok_b] of Spec/CmdValidateSpec.v. *)
From Coq Require Export List NArith Bool String.
From NoKV Require Export Base.Bytes Model.CmdValidate Spec.CmdValidateSpec Corr.Common.
Export ListNotations.
Local Open Scope N_scope.

(** Observed region error: 0 = nil, 1 = EpochNotMatch carrying the region's
    current epoch, anything else = unexpected. *)
Inductive case :=
| CaseValidate (m : meta) (re : option epoch) (rs : list (option request)) (epoch_err keys_err : N)
| CaseKey (m : meta) (k : bytes) (observed : bool)
| CaseTrim (m : meta) (rs : list (option request)) (os out : list response).

Definition err_matches (ok : bool) (obs : N) : bool :=
  if ok then obs =? 0 else obs =? 1.

Definition check (c : case) : verdict :=
  match c with
  | CaseValidate m re rs ee ke =>
      let accepted := (ee =? 0) && (ke =? 0) in
      mk_verdict (negb (err_matches (validate_epoch re m) ee && err_matches (validate_keys m rs) ke)
                  || negb (Bool.eqb accepted
                             (match validate m re rs with Accept => true | RegionError => false end)))
                 (negb (Bool.eqb accepted (owned_b m re rs)))
                 0
  | CaseKey m k obs =>
      mk_verdict (negb (Bool.eqb (key_in_range m k) obs))
                 (negb (bytes_eqb k []) && negb (Bool.eqb obs (in_range_b m k)))
                 0
  | CaseTrim m rs os out =>
      mk_verdict (negb (responses_eqb out (trim m rs os)))
                 (shaped_b rs os && negb (trim_ok_b m os out))
                 0
  end.

(* compact constructors for the harness *)
Definition Mt (s e : string) (c v : N) : meta :=
  {| m_start := unhex s; m_end := unhex e; m_epoch := {| e_conf := c; e_ver := v |} |}.
Definition Ep (c v : N) : option epoch := Some {| e_conf := c; e_ver := v |}.
Definition G (k : string) := BGet (unhex k).
Definition Sc (k : string) := BScan (unhex k).
Definition Pw (l : list (option bytes)) := BPrewrite l.
Definition Cm (l : list bytes) := BCommit l.
Definition Rb (l : list bytes) := BRollback l.
Definition Rl (l : list bytes) := BResolve l.
Definition Ck (k : string) := BCheck (unhex k).
Definition Rq (t : N) (b : body) : option request := Some {| r_type := t; r_body := b |}.
Definition RqNil : option request := None.
Definition KV (k : string) (t : N) : kv := Some (unhex k, t).
Definition KVNil : kv := None.
Definition CV := CaseValidate.
Definition CK (m : meta) (k : string) (o : bool) := CaseKey m (unhex k) o.
Definition CT := CaseTrim.

(** Correspondence for C27.  The harness runs concurrent Tso/AllocID requests
    on a real service + LocalStore under the controlled scheduler, reports after
    every grant (thread, ran, yield point, both counters, checkpoint file,
    response), then copies the directory (crash), starts a second service from
    the copy and reports its counters, the responses to a few sequential
    requests and the final checkpoint.

    mismatch: any reported value differs from the model ([tstep true]).
    violation (oracle [trace_ok_b]/[restart_ok_b], independent of the model):
    a response overlaps an earlier one, a response given is above the
    checkpoint on disk at some later point, or a response after the restart is
    not above everything responded before the crash. *)
From Coq Require Export List NArith Bool.
From NoKV Require Export Base.Sched Model.SchedLib Model.PdAlloc Spec.PdAllocSpec Corr.Common.
Export ListNotations.
Local Open Scope N_scope.

Record step := { s_t : nat; s_ran : bool; s_tag : N; s_ids : N; s_tso : N; s_cid : N; s_cts : N; s_resp : N }.
Record crash := { k_ids : N; k_tso : N; k_reqs : list req; k_ids0 : N; k_tso0 : N;
                  k_firsts : list N; k_cid : N; k_cts : N }.
Record case := { c_ids : N; c_tso : N; c_reqs : list req; c_steps : list step; c_crash : crash }.

Definition pc_tag (p : pc) : N :=
  match p with PReserve => 0 | PLock _ => 1 | PLoadId _ => 2 | PLoadTs _ _ => 3 | PSave _ _ _ => 4 | PDone _ => 5 end.
Definition pc_resp (p : pc) : N := match p with PDone f => f | _ => 0 end.

Definition is_some {A} (o : option A) : bool := match o with Some _ => true | None => false end.

Fixpoint agree (g : gstate) (steps : list step) : bool * gstate :=
  match steps with
  | [] => (true, g)
  | s :: r =>
      let o := tstep true g (Th (s_t s)) in
      let g' := match o with Some g' => g' | None => g end in
      let ok :=
        Bool.eqb (is_some o) (s_ran s) &&
        match nth_error (g_threads g') (s_t s) with
        | Some th => (pc_tag (th_pc th) =? s_tag s) && (pc_resp (th_pc th) =? s_resp s)
        | None => false
        end &&
        (g_ids g' =? s_ids s) && (g_tso g' =? s_tso s) && (g_ck_id g' =? s_cid s) && (g_ck_ts g' =? s_cts s) in
      let '(ok', gf) := agree g' r in (ok && ok', gf)
  end.

(** run thread [t] alone to completion *)
Fixpoint finish (fuel : nat) (g : gstate) (t : nat) : gstate :=
  match fuel with
  | O => g
  | S f => match tstep true g (Th t) with Some g' => finish f g' t | None => g end
  end.

Fixpoint agree_restart (g : gstate) (t : nat) (firsts : list N) : bool * gstate :=
  match firsts with
  | [] => (true, g)
  | f :: r =>
      let g' := finish 8 g t in
      let ok := match nth_error (g_threads g') t with
                | Some th => pc_resp (th_pc th) =? f
                | None => false
                end in
      let '(ok', gf) := agree_restart g' (S t) r in (ok && ok', gf)
  end.

Definition ostep_of (reqs : list req) (s : step) : ostep :=
  (s_cid s, s_cts s,
   if s_ran s && (s_tag s =? 5) then
     match nth_error reqs (s_t s) with
     | Some r => Some (r_kind r, s_resp s, eff_count r)
     | None => None
     end
   else None).

Fixpoint zip_iv (reqs : list req) (firsts : list N) : list iv :=
  match reqs, firsts with
  | r :: reqs', f :: firsts' => (r_kind r, f, eff_count r) :: zip_iv reqs' firsts'
  | _, _ => []
  end.

Definition check (c : case) : verdict :=
  let '(ok1, g1) := agree (init (c_ids c) (c_tso c) (c_reqs c)) (c_steps c) in
  let k := c_crash c in
  let ok2 :=
    match tstep true g1 (Crash (k_ids k) (k_tso k) (k_reqs k)) with
    | None => false
    | Some g2 =>
        (g_ids g2 =? k_ids0 k) && (g_tso g2 =? k_tso0 k) &&
        Nat.eqb (List.length (k_firsts k)) (List.length (k_reqs k)) &&
        let '(ok, g3) := agree_restart g2 0 (k_firsts k) in
        ok && (g_ck_id g3 =? k_cid k) && (g_ck_ts g3 =? k_cts k)
    end in
  let tr := map (ostep_of (c_reqs c)) (c_steps c) in
  mk_verdict (negb (ok1 && ok2))
             (negb (trace_ok_b [] tr && restart_ok_b (seen_after [] tr) (zip_iv (k_reqs k) (k_firsts k))))
             0.

Definition R (k c : N) : req := {| r_kind := if k =? 0 then KId else KTs; r_count := c |}.
Definition St (t : N) (ran : bool) (tag ids tso cid cts resp : N) : step :=
  {| s_t := N.to_nat t; s_ran := ran; s_tag := tag; s_ids := ids; s_tso := tso; s_cid := cid; s_cts := cts; s_resp := resp |}.
Definition Cr (a b : N) (reqs : list req) (i0 t0 : N) (firsts : list N) (cid cts : N) : crash :=
  {| k_ids := a; k_tso := b; k_reqs := reqs; k_ids0 := i0; k_tso0 := t0; k_firsts := firsts; k_cid := cid; k_cts := cts |}.
Definition Cs (a b : N) (reqs : list req) (steps : list step) (k : crash) : case :=
  {| c_ids := a; c_tso := b; c_reqs := reqs; c_steps := steps; c_crash := k |}.

(** Correspondence for C27.  The harness runs concurrent Tso/AllocID requests
    on a real service + LocalStore under the controlled scheduler, reports after
    every grant (thread, ran, yield point, both counters, checkpoint file,
    response), then copies the directory (crash), starts a second service from
    the copy and reports its counters, the responses to a few sequential
    requests and the final checkpoint.

    mismatch: any reported value differs from the model ([tstep true]).
    violation (oracle [trace_ok_b]/[restart_ok_b], independent of the model):
    a response overlaps an earlier one, a response given is above the
    checkpoint on disk at some later point, or a response after the restart is
    not above everything responded before the crash. *)
From Coq Require Export List NArith Bool.
From NoKV Require Export Base.Sched Model.SchedLib Model.PdAlloc Spec.PdAllocSpec Corr.Common.
Export ListNotations.
Local Open Scope N_scope.

Record step := { s_force : bool; s_t : nat; s_ran : bool; s_tag : N; s_ids : N; s_tso : N; s_cid : N; s_cts : N; s_resp : N }.
Record crash := { k_ids : N; k_tso : N; k_reqs : list req; k_ids0 : N; k_tso0 : N;
                  k_firsts : list N; k_cid : N; k_cts : N }.
(** restart through the real [nokv pd] command: responses of the first incarnation, checkpoint file at
    the restart, the start flags in effect (defaults 1/1 or passed explicitly), the start values the command
    printed, the first id and timestamp it handed out *)
Record boot := { b_seen : list iv; b_cid : N; b_cts : N; b_fid : N; b_fts : N;
                 b_sid : N; b_sts : N; b_first_id : N; b_first_ts : N }.

Record case := { c_ids : N; c_tso : N; c_reqs : list req; c_fail : list bool; c_steps : list step; c_boot : option boot;
                 c_images : list (nat * N * N); c_crash : crash }.

Definition pc_tag (p : pc) : N :=
  match p with PReserve => 0 | PLock _ => 1 | PLoadId _ => 2 | PLoadTs _ _ => 3 | PSave _ _ _ => 4 | PDone _ => 5 | PFail _ => 7 end.
Definition pc_resp (p : pc) : N := match p with PDone f => f | _ => 0 end.

Definition is_some {A} (o : option A) : bool := match o with Some _ => true | None => false end.

(** A forced step ([s_force]): the harness granted thread [t] at the [persistMu.Lock] yield point
    although the mutex was held; the real [Lock] blocks (observed tag 6) and the model's thread stays
    where it is, disabled.  [waiting] remembers that thread: as soon as a later step releases the mutex,
    the real thread acquires it and runs on to its next yield point, i.e. the model performs [Th w]
    right after that step.  [cks] collects the checkpoint after every step (for the crash images). *)
Section Fail.
Variable failing : nat -> bool.

Fixpoint agree (g : gstate) (waiting : option nat) (steps : list step) : bool * gstate * list (N * N) :=
  match steps with
  | [] => (true, g, [])
  | s :: r =>
      let t := s_t s in
      let is_waiting := match waiting with Some w => Nat.eqb w t | None => false end in
      let '(ran, g', waiting', blocked) :=
        if s_force s then
          match waiting, nth_error (g_threads g) t with
          | None, Some th =>
              match th_pc th with
              | PLock _ => if g_mu g then (true, g, Some t, true) else (false, g, None, false)
              | _ => (false, g, None, false)
              end
          | _, _ => (false, g, None, false)
          end
        else if is_waiting then (false, g, waiting, true)
        else
          let o := tstep true failing g (Th t) in
          let g1 := match o with Some g1 => g1 | None => g end in
          match waiting with
          | Some w => if g_mu g1 then (is_some o, g1, waiting, false)
                      else match tstep true failing g1 (Th w) with
                           | Some g2 => (is_some o, g2, None, false)
                           | None => (is_some o, g1, waiting, false)
                           end
          | None => (is_some o, g1, None, false)
          end in
      let ok :=
        Bool.eqb ran (s_ran s) &&
        match nth_error (g_threads g') t with
        | Some th => ((if blocked then 6 else pc_tag (th_pc th)) =? s_tag s) && (pc_resp (th_pc th) =? s_resp s)
        | None => false
        end &&
        (g_ids g' =? s_ids s) && (g_tso g' =? s_tso s) && (g_ck_id g' =? s_cid s) && (g_ck_ts g' =? s_cts s) in
      let '(ok', gf, cks) := agree g' waiting' r in (ok && ok', gf, (g_ck_id g', g_ck_ts g') :: cks)
  end.

End Fail.

(** run thread [t] alone to completion *)
Fixpoint finish (fuel : nat) (g : gstate) (t : nat) : gstate :=
  match fuel with
  | O => g
  | S f => match tstep true (fun _ => false) g (Th t) with Some g' => finish f g' t | None => g end
  end.

Fixpoint agree_restart (g : gstate) (t : nat) (firsts : list N) : bool * gstate :=
  match firsts with
  | [] => (true, g)
  | f :: r =>
      let g' := finish 8 g t in
      let ok := match nth_error (g_threads g') t with
                | Some th => pc_resp (th_pc th) =? f
                | None => false
                end in
      let '(ok', gf) := agree_restart g' (S t) r in (ok && ok', gf)
  end.

Definition ostep_of (reqs : list req) (s : step) : ostep :=
  (s_cid s, s_cts s,
   if s_ran s && (s_tag s =? 5) then
     match nth_error reqs (s_t s) with
     | Some r => Some (r_kind r, s_resp s, eff_count r)
     | None => None
     end
   else None).

Fixpoint zip_iv (reqs : list req) (firsts : list N) : list iv :=
  match reqs, firsts with
  | r :: reqs', f :: firsts' => (r_kind r, f, eff_count r) :: zip_iv reqs' firsts'
  | _, _ => []
  end.

(** crash image taken during step [k+1], before one of its file operations: the model's checkpoint
    is still the one after [k] steps (the file is replaced atomically) *)
Definition image_model_ok (cks : list (N * N)) (im : nat * N * N) : bool :=
  let '(k, id0, ts0) := im in
  let '(ci, ct) := match k with O => (0, 0) | S k' => nth k' cks (0, 0) end in
  (counter_of_start (resolve 1 ci) =? id0) && (counter_of_start (resolve 1 ct) =? ts0).

(** oracle: everything responded in the first [k] steps is below what the restarted service hands out *)
Definition image_spec_ok (tr : list ostep) (im : nat * N * N) : bool :=
  let '(k, id0, ts0) := im in covered_b id0 ts0 (seen_after [] (firstn k tr)).

(** model: the command starts the allocators at [resolve flag checkpoint] (the [Crash] label of the model) *)
Definition boot_model_ok (b : boot) : bool :=
  let si := resolve (b_fid b) (b_cid b) in
  let st := resolve (b_fts b) (b_cts b) in
  (b_sid b =? si) && (b_sts b =? st) &&
  (b_first_id b =? counter_of_start si + 1) && (b_first_ts b =? counter_of_start st + 1).
(** oracle: what the restarted command hands out lies above everything handed out before *)
Definition boot_spec_ok (b : boot) : bool :=
  restart_ok_b (b_seen b) [(KId, b_first_id b, 1)] && restart_ok_b (b_seen b) [(KTs, b_first_ts b, 1)].

Definition check (c : case) : verdict :=
  let failing := fun t => nth t (c_fail c) false in
  let '(ok1, g1, cks) := agree failing (init (c_ids c) (c_tso c) (c_reqs c)) None (c_steps c) in
  let k := c_crash c in
  let ok2 :=
    match tstep true (fun _ => false) g1 (Crash (k_ids k) (k_tso k) (k_reqs k)) with
    | None => false
    | Some g2 =>
        (g_ids g2 =? k_ids0 k) && (g_tso g2 =? k_tso0 k) &&
        Nat.eqb (List.length (k_firsts k)) (List.length (k_reqs k)) &&
        let '(ok, g3) := agree_restart g2 0 (k_firsts k) in
        ok && (g_ck_id g3 =? k_cid k) && (g_ck_ts g3 =? k_cts k)
    end in
  let tr := map (ostep_of (c_reqs c)) (c_steps c) in
  let bm := match c_boot c with Some b => boot_model_ok b | None => true end in
  let bs := match c_boot c with Some b => boot_spec_ok b | None => true end in
  mk_verdict (negb (ok1 && ok2 && forallb (image_model_ok cks) (c_images c) && bm))
             (negb (trace_ok_b [] tr && restart_ok_b (seen_after [] tr) (zip_iv (k_reqs k) (k_firsts k)) &&
                    forallb (image_spec_ok tr) (c_images c) && bs))
             0.

Definition R (k c : N) : req := {| r_kind := if k =? 0 then KId else KTs; r_count := c |}.
Definition St (t : N) (ran : bool) (tag ids tso cid cts resp : N) : step :=
  {| s_force := false; s_t := N.to_nat t; s_ran := ran; s_tag := tag; s_ids := ids; s_tso := tso; s_cid := cid; s_cts := cts; s_resp := resp |}.
Definition Sf (t : N) (ran : bool) (tag ids tso cid cts resp : N) : step :=
  {| s_force := true; s_t := N.to_nat t; s_ran := ran; s_tag := tag; s_ids := ids; s_tso := tso; s_cid := cid; s_cts := cts; s_resp := resp |}.
Definition Im (k id0 ts0 : N) : nat * N * N := (N.to_nat k, id0, ts0).
Definition Cr (a b : N) (reqs : list req) (i0 t0 : N) (firsts : list N) (cid cts : N) : crash :=
  {| k_ids := a; k_tso := b; k_reqs := reqs; k_ids0 := i0; k_tso0 := t0; k_firsts := firsts; k_cid := cid; k_cts := cts |}.
Definition Cs (a b : N) (reqs : list req) (steps : list step) (ims : list (nat * N * N)) (k : crash) : case :=
  {| c_ids := a; c_tso := b; c_reqs := reqs; c_fail := []; c_steps := steps; c_boot := None; c_images := ims; c_crash := k |}.
(** [Cf]: like [Cs], with the list of requests whose checkpoint write is made to fail *)
Definition Cf (a b : N) (reqs : list req) (fails : list bool) (steps : list step) (ims : list (nat * N * N)) (k : crash) : case :=
  {| c_ids := a; c_tso := b; c_reqs := reqs; c_fail := fails; c_steps := steps; c_boot := None; c_images := ims; c_crash := k |}.

Definition Rv (k first count : N) : iv := (if k =? 0 then KId else KTs, first, count).
Definition CsBoot (seen : list iv) (cid cts fid fts sid sts first_id first_ts : N) : case :=
  {| c_ids := 1; c_tso := 1; c_reqs := []; c_fail := []; c_steps := [];
     c_boot := Some {| b_seen := seen; b_cid := cid; b_cts := cts; b_fid := fid; b_fts := fts;
                       b_sid := sid; b_sts := sts; b_first_id := first_id; b_first_ts := first_ts |};
     c_images := []; c_crash := Cr 1 1 [] 0 0 [] 0 0 |}.

(** Correspondence for C28 (family "client2pc"): the real
    [raftstore/client.Client] runs [TwoPhaseCommit] against fault-injecting
    gRPC stores whose handlers execute [raftstore/kv.Apply] on real region
    DBs; a second client plays the reader that resolves the transaction (at
    chosen RPC boundaries, and finally).  The harness reports every request
    executed on any region, in global order, and every RPC attempt of the
    client under test with the injected fault.

    [mismatch]: the model disagrees -- a response of [Model/KvApply.v], the
    next RPC predicted by the client model [Model/Client2pc.v], or the final
    outcome of the call.
    [violation]: the final reads (every key at the commit version and one
    below, after the final resolution) are not all-new or all-old; or the
    call failed before the primary was committed and the reads are not
    all-old; or a request sent by the client / resolver breaks the protocol
    discipline [allowed] under which atomicity is proved. *)
From Coq Require Export List NArith Bool String.
From NoKV Require Export Base.Bytes Model.Percolator Model.KvApply Model.Client2pc
  Spec.PercoSpec Spec.Client2pcSpec Corr.Common Corr.RunPerco.
Export ListNotations.
Local Open Scope N_scope.

Inductive fault := FNone | FFailBefore | FNotLeaderBefore | FFailAfter | FRegionErrAfter.

Inductive ev :=
| EC (region : N) (r : request) (f : fault) (o : option obs)   (* an RPC attempt of TwoPhaseCommit; [None]: not executed *)
| EO (r : request) (o : obs).                                  (* base data, reader / resolver requests, final reads *)

Record case := {
  c_txn : txn;
  c_events : list ev;
  c_ok : bool;                               (* TwoPhaseCommit returned nil *)
  c_old : list (bytes * get_result);         (* what a read returned before the transaction *)
  c_reads : list (bytes * obs * obs) }.      (* key, GET at commit version, GET at commit version - 1, after the final resolution *)

(** ** equality of requests *)
Definition mutation_eqb (a b : mutation) : bool :=
  op_eqb (m_op a) (m_op b) && bytes_eqb (m_key a) (m_key b) && bytes_eqb (m_val a) (m_val b).
Definition request_eqb (a b : request) : bool :=
  match a, b with
  | RPrewrite ms p s t m, RPrewrite ms' p' s' t' m' =>
      list_eqb mutation_eqb ms ms' && bytes_eqb p p' && (s =? s') && (t =? t') && (m =? m')
  | RCommit ks s c, RCommit ks' s' c' => list_eqb bytes_eqb ks ks' && (s =? s') && (c =? c')
  | RRollback ks s, RRollback ks' s' => list_eqb bytes_eqb ks ks' && (s =? s')
  | RResolve ks s c, RResolve ks' s' c' => list_eqb bytes_eqb ks ks' && (s =? s') && (c =? c')
  | RCheck p l c cs rb, RCheck p' l' c' cs' rb' =>
      bytes_eqb p p' && (l =? l') && (c =? c') && (cs =? cs') && Bool.eqb rb rb'
  | RGet k v, RGet k' v' => bytes_eqb k k' && (v =? v')
  | RScan k i l v, RScan k' i' l' v' => bytes_eqb k k' && Bool.eqb i i' && (l =? l') && (v =? v')
  | _, _ => false
  end.

(** ** the model against the observation *)
Fixpoint walk (cc : ccfg) (s : store) (cs : cstate) (evs : list ev) : bool * cstate :=
  match evs with
  | [] => (true, cs)
  | EO r o :: evs' =>
      let '(s1, p) := apply_req current s r in
      if obs_is o p then walk cc s1 cs evs' else (false, cs)
  | EC region r f o :: evs' =>
      match client_next cs with
      | Some (region', r') =>
          if (region =? region') && request_eqb r r' then
            match f, o with
            | FFailBefore, None => walk cc s (client_step cs ARpcError) evs'
            | FNotLeaderBefore, None => walk cc s (client_step cs ARegionError) evs'
            | FFailBefore, Some _ | FNotLeaderBefore, Some _ => (false, cs)
            | _, None => (false, cs)
            | _, Some ob =>
                let '(s1, p) := apply_req current s r in
                if obs_is ob p then
                  walk cc s1 (client_step cs
                                (match f with
                                 | FFailAfter => ARpcError
                                 | FRegionErrAfter => ARegionError
                                 | _ => AResponse p
                                 end)) evs'
                else (false, cs)
            end
          else (false, cs)
      | None => (false, cs)
      end
  end.

Definition model_agrees (c : case) : bool :=
  let '(ok, cs) := walk ccurrent empty_store (client_init ccurrent (c_txn c)) (c_events c) in
  ok && match c_result cs with
        | Some CDone => c_ok c
        | Some CFailed => negb (c_ok c)
        | None => false
        end.

(** ** the specification against the observation *)
Definition tx_of (t : txn) : tx :=
  {| x_start := t_start t; x_commit := t_commit t; x_primary := t_primary t; x_keys := t_keys t |}.

Definition ev_req (e : ev) : option request :=
  match e with
  | EO r _ => Some r
  | EC _ r _ (Some _) => Some r
  | EC _ _ _ None => None
  end.

(** discipline along the executed requests; also the logical state when the
    call returned (after the last client attempt) *)
Fixpoint spec_walk (x : tx) (a : lstate) (g : list bytes) (evs : list ev) (at_return : lstate)
  : bool * lstate * lstate :=
  match evs with
  | [] => (true, a, at_return)
  | e :: evs' =>
      match ev_req e with
      | None => spec_walk x a g evs' (match e with EC _ _ _ _ => a | _ => at_return end)
      | Some r =>
          if allowed x a g r then
            let a' := fst (lstep a r) in
            spec_walk x a' (g ++ locked_keys x a') evs' (match e with EC _ _ _ _ => a' | _ => at_return end)
          else (false, a, at_return)
      end
  end.

Definition new_result (t : txn) (k : bytes) : get_result :=
  match find (fun m => bytes_eqb (m_key m) k) (rev (t_muts t)) with
  | Some m => match m_op m with OpPut => GValue (m_val m) | _ => GNotFound end
  | None => GNotFound
  end.
Definition old_result (old : list (bytes * get_result)) (k : bytes) : get_result :=
  match find (fun '(k', _) => bytes_eqb k k') old with
  | Some (_, r) => r
  | None => GNotFound
  end.
Definition obs_get (o : obs) (g : get_result) : bool := obs_is o (PGet g).

Definition reads_all_new (c : case) : bool :=
  forallb (fun '(k, oc, oc1) => obs_get oc (new_result (c_txn c) k) && obs_get oc1 (old_result (c_old c) k)) (c_reads c).
Definition reads_all_old (c : case) : bool :=
  forallb (fun '(k, oc, oc1) => obs_get oc (old_result (c_old c) k) && obs_get oc1 (old_result (c_old c) k)) (c_reads c).

Definition spec_holds (c : case) : bool :=
  let x := tx_of (c_txn c) in
  let '(disciplined, a, a_ret) := spec_walk x lempty [] (c_events c) lempty in
  disciplined &&
  (reads_all_new c || reads_all_old c) &&
  (c_ok c || primary_committed x a_ret || reads_all_old c) &&
  (negb (c_ok c) || reads_all_new c) &&
  list_eqb bytes_eqb (map (fun '(k, _, _) => k) (c_reads c)) (t_keys (c_txn c)).

Definition check (c : case) : verdict :=
  mk_verdict (negb (model_agrees c)) (negb (spec_holds c)) 0.

(** ** constructor helpers *)
Definition Tx (regions : list (string * N)) (ms : list mutation) (p : string) (s c ttl : N) (o1 o2 : list N) : txn :=
  {| t_regions := map (fun '(k, r) => (B k, r)) regions; t_muts := ms; t_primary := B p;
     t_start := s; t_commit := c; t_ttl := ttl; t_ord1 := o1; t_ord2 := o2 |}.
Definition Old (k : string) (v : string) : bytes * get_result := (B k, GValue (B v)).
Definition Rd (k : string) (a b : obs) : bytes * obs * obs := (B k, a, b).
Definition C2 (t : txn) (evs : list ev) (ok : bool) (old : list (bytes * get_result)) (rds : list (bytes * obs * obs)) : case :=
  {| c_txn := t; c_events := evs; c_ok := ok; c_old := old; c_reads := rds |}.

(** Correspondence for C09, C10, C11 (family "crash").

    One case per crash point of a workload run against the real DB on a
    recording file system.  The harness reports: the workload with its
    annotations, the abstract file effects it saw, the number [c_n] of effects
    completed at the crash point, the number of acknowledged batches, and what a
    reopening of the directory image showed (reads of every key through every
    read API, before and after forced maintenance).

    mismatch  = the model's effect trace differs from the observed one, or the model's
                recovery of the crashed model state reads differently from the real one
                (for C11 also: after the same maintenance), or the acknowledgement count
                is impossible at that position;
    violation = the observed reads contradict the specification oracle of the property
                (Spec/CrashSpec.v), evaluated on the observation alone. *)
From Coq Require Export List NArith Bool.
From NoKV Require Export Model.Fs Model.Recovery Spec.CrashSpec Corr.Common.
Export ListNotations.
Local Open Scope N_scope.

Definition En := Build_entry.
Definition Rq := Build_req.

(** [o_second]: the batches written by a second incarnation on the reopened image (empty: none)
    and the reads after its clean close and another reopen *)
Record obs := { o_opened : bool; o_reads : list (N * obsv); o_stages : list (list (N * obsv));
                o_second : list batch; o_reads2 : list (N * obsv) }.
Definition Ob := Build_obs.

Record dbcase := {
  c_prop : N; c_sync : bool; c_seg : N; c_buckets : N; c_txn : bool;
  c_steps : list step; c_effs : list eff; c_n : N; c_acked : N;
  c_torn : N;   (* 0: the image after the n-th effect; j+1: the n-th effect is a WAL write torn inside
                   its last record: only j of its records are complete in the file *)
  c_obs : obs }.

(** a case of the wal.Manager-level sub-family of C09: the ids of the appended records, how many
    of them were acknowledged (append + Sync returned) at the crash point, whether VerifyDir + Open
    succeeded on the image, and the ids Replay returned *)
Record walcase := { w_appended : list N; w_acked : N; w_opened : bool; w_replayed : list N }.

Definition case := (dbcase + walcase)%type.
Definition Cs a b c d e f g h i j k : case := inl (Build_dbcase a b c d e f g h i j k).
Definition Wl a b c d : case := inr (Build_walcase a b c d).

Definition medit_eqb (a b : medit) : bool :=
  match a, b with
  | AF x y, AF x' y' | DF x y, DF x' y' | VH x y, VH x' y' | VD x y, VD x' y' => (x =? x') && (y =? y')
  | LP x, LP x' | EO x, EO x' => x =? x'
  | VU x y z, VU x' y' z' => (x =? x') && (y =? y') && Bool.eqb z z'
  | _, _ => false
  end.

Fixpoint list_eqb {A : Type} (eqb : A -> A -> bool) (a b : list A) : bool :=
  match a, b with
  | [], [] => true
  | x :: a', y :: b' => eqb x y && list_eqb eqb a' b'
  | _, _ => false
  end.

Definition eff_eqb (a b : eff) : bool :=
  match a, b with
  | VC x y, VC x' y' | VR x y, VR x' y' | WF x y, WF x' y' => (x =? x') && (y =? y')
  | VA x y z w, VA x' y' z' w' => (x =? x') && (y =? y') && (z =? z') && (w =? w')
  | WC x, WC x' | WR x, WR x' | SC x, SC x' | SF x, SF x' | SR x, SR x' => x =? x'
  | MF es, MF es' => list_eqb medit_eqb es es'
  | _, _ => false
  end.

Definition keys : list N := [1; 2; 3; 4].

Definition reads_of (s : rstore) : list (N * obsv) := map (fun k => (k, get s k)) keys.

Definition read_fn (l : list (N * obsv)) (k : N) : obsv :=
  match fget N.eqb k l with Some o => o | None => OD end.

Definition reads_eqb (a b : list (N * obsv)) : bool :=
  list_eqb (fun x y => (fst x =? fst y) && obsv_eqb (snd x) (snd y)) a b.

(** continue through the micro-operations that perform no file effect (they cannot be
    told apart from outside); stop before the next effect *)
Fixpoint run_through (ms : list mop) (n : nat) (st : mstate) : mstate :=
  match ms with
  | [] => st
  | m :: ms' => let '(st', oe) := exec st m in
                match oe, n with
                | Some _, O => st
                | Some _, S n' => run_through ms' n' st'
                | None, _ => run_through ms' n st'
                end
  end.

(** the maintenance the harness forces on a recovered store *)
Definition plan (c : dbcase) (s : rstore) : list maint :=
  let pre := [MtFlushAll] ++ map MtSeal (range_N (N.to_nat (c_buckets c))) in
  pre ++ sealed_files (N.to_nat (c_buckets c)) (maint_all pre s).

(** the flattened client entries, each as its own batch (entry granularity) *)
Definition entry_batches (w : list step) : list batch :=
  map (fun x => [x]) (concat (client_batches w)).

(** the stage the model is compared with: the reads after the forced maintenance (the stages
    are: after flush, after GC, after a clean reopen; the clean reopen after maintenance is
    judged by the oracle only — close/reopen is C12's subject) *)
Definition last_stage (o : obs) : list (N * obsv) := nth 1 (o_stages o) (o_reads o).

Definition check_db (c : dbcase) : verdict :=
  let ms := compile (c_sync c) (c_steps c) in
  let st0 := init (c_seg c) (N.to_nat (c_buckets c)) in
  let n := N.to_nat (c_n c) in
  let torn := negb (c_torn c =? 0) in
  let st := if torn
            then match n with
                 | O => st0
                 | S n' => let s1 := run_through ms n' st0 in
                           fst (flush_k (N.to_nat (c_torn c - 1)) (fst s1) (snd s1))
                 end
            else run_until ms n st0 in
  let st_hi := run_through ms n st0 in
  let s := recover (crash st) in
  let o := c_obs c in
  let bs := client_batches (c_steps c) in
  let rd := read_fn (o_reads o) in
  let acked := N.to_nat (c_acked c) in
  let m_effs := negb (list_eqb eff_eqb (effs_of ms st0) (c_effs c)) in
  let m_reads := negb (o_opened o) || negb (reads_eqb (reads_of s) (o_reads o)) in
  (* the acknowledgement that follows wal.Sync is one micro-operation with it: the lower bound
     is the count just before the micro-operation of the n-th effect *)
  let st_lo := match n with O => st0 | S n' => run_through ms n' st0 end in
  let m_ack := negb torn && negb ((t_acked (snd st_lo) <=? c_acked c) && (c_acked c <=? t_acked (snd st_hi))) in
  let pl := plan c s in
  let m_maint := negb torn && (c_prop c =? 11) && negb (reads_eqb (reads_of (maint_all pl s)) (last_stage o)) in
  let second_bad := match o_second o with
                    | [] => false
                    | bs2 => negb (second_ok_b keys rd bs2 (read_fn (o_reads2 o)))
                    end in
  let viol :=
    if c_prop c =? 9 then c_sync c && (negb (o_opened o && acked_durable_b bs acked keys rd) || second_bad)
    else if c_prop c =? 10 then negb (o_opened o && prefix_consistent_b bs keys rd) || second_bad
    else negb (o_opened o && stable_b keys rd (map read_fn (o_stages o))) in
  let known :=
    if c_prop c =? 10 then
      (* F13: the reads are those of a prefix of the entries, but of no prefix of the batches (a WAL
         flush inside a request, or a WAL write torn inside a request's records) *)
      if o_opened o && negb second_bad && prefix_consistent_b (entry_batches (c_steps c)) keys rd &&
         (negb (no_split (c_steps c)) || torn) then 1 else 0
    else 0 in
  mk_verdict (m_effs || m_reads || m_ack || m_maint) viol known.

(** the wal.Manager-level cases are judged by the oracle only (no model run) *)
Definition check_wal (w : walcase) : verdict :=
  mk_verdict false
    (negb (w_opened w && wal_acked_durable_b (w_appended w) (N.to_nat (w_acked w)) (w_replayed w))) 0.

Definition check (c : case) : verdict :=
  match c with inl d => check_db d | inr w => check_wal w end.

(** Correspondence for C07: the Go harness inserts the same entry sequence
    into utils.NewSkiplist and utils.NewART, then on both engines observes
    full forward / reverse iteration, Search and Seek(+3 Next) in both
    directions on many targets.

    mismatch  = an engine's model (Model/MemIndexSkl.v, Model/MemIndexArt.v)
                answers differently from that engine;
    violation = an engine's observed answers contradict Spec/MemIndexSpec.v
                (independent of the models);
    known 1   = only the ART engine violates, the keys involved are not
                [radix_safe], and the ART model reproduces what was observed
                (known finding C07-F11);
    known 2   = concurrent-insert stress case in which only the ART engine
                violates (known finding C07-F31: concurrent ART inserts lose
                entries). *)
From NoKV Require Export Corr.RunSst Model.MemIndexSkl Model.MemIndexArt Spec.MemIndexSpec.
Local Open Scope N_scope.

(** observations on one engine *)
Record eobs := { m_fwd : olist; m_rev : olist; m_res : list tres }.

(** [mc_conc]: the entries were inserted by 8 goroutines (stress test; keys distinct) *)
Record mcase := { mc_conc : bool; mc_ops : list entry; mc_targets : list target; mc_skl : eobs; mc_art : eobs }.

Definition lim (l : list entry) : list entry := firstn seek_limit l.

Definition res_ok (es : list entry) (search : bytes -> option entry) (seek : bool -> bytes -> list entry)
                  (tg : target) (r : tres) : bool :=
  let k := key_of es (tg_spec tg) in
  search_ok es (search k) (r_search r)
  && ents_ok es (lim (seek true k)) (r_fwd r)
  && ents_ok es (lim (seek false k)) (r_rev r).

(** an engine's observations against answers computed by [iter]/[search]/[seek] *)
Definition eobs_ok (es : list entry) (tgs : list target)
                   (iter : bool -> list entry) (search : bytes -> option entry)
                   (seek : bool -> bytes -> list entry) (o : eobs) : bool :=
  list_eqb entry_eqb (iter true) (resolve es (m_fwd o))
  && list_eqb entry_eqb (iter false) (resolve es (m_rev o))
  && forallb2 (res_ok es search seek) tgs (m_res o).

(** against the specification: the forward iteration must be the ordered map
    of the writes, everything else is defined on that list *)
Definition eobs_spec_ok (ops : list entry) (tgs : list target) (o : eobs) : bool :=
  let l := resolve ops (m_fwd o) in
  is_map_of_b ops l
  && eobs_ok ops tgs (fun asc => spec_iter asc l) (mi_search l) (fun asc q => spec_from asc l q) o.

Definition all_keys (ops : list entry) (tgs : list target) : list bytes :=
  map e_key ops ++ map (fun tg => key_of ops (tg_spec tg)) tgs.

Definition mcheck (c : mcase) : verdict :=
  let ops := mc_ops c in
  let tgs := mc_targets c in
  let sk := skl_of ops in
  let ar := art_of ops in
  let skl_model := eobs_ok ops tgs (fun asc => skl_iter asc sk) (skl_search sk) (fun asc q => skl_seek asc sk q) (mc_skl c) in
  let art_model := eobs_ok ops tgs (fun asc => art_iter asc ar) (art_search ar) (fun asc q => art_seek asc ar q) (mc_art c) in
  let skl_spec := eobs_spec_ok ops tgs (mc_skl c) in
  let art_spec := eobs_spec_ok ops tgs (mc_art c) in
  let known :=
    if mc_conc c then (if skl_spec && negb art_spec then 2 else 0)
    else if skl_spec && negb art_spec && negb (radix_safe (all_keys ops tgs)) && art_model then 1 else 0 in
  (* the models are sequential: after concurrent inserts the ART engine may have lost
     entries (known finding 2), which is judged against the specification only *)
  let art_mismatch := if mc_conc c then art_spec && negb art_model else negb art_model in
  mk_verdict (negb skl_model || art_mismatch) (negb (skl_spec && art_spec)) known.

(* names expected by the driver *)
Definition case := mcase.
Definition check := mcheck.

(* compact constructors; entries are printed with RunSst's [E], targets with [T (TB i v) 0] / [T (TX "base" v) 0],
   observed entries with [I n] (the n-th inserted entry) *)
Definition Om (fwd rev : olist) (rs : list tres) : eobs := {| m_fwd := fwd; m_rev := rev; m_res := rs |}.
Definition Cm (conc : bool) (ops : list entry) (tgs : list target) (s a : eobs) : mcase :=
  {| mc_conc := conc; mc_ops := ops; mc_targets := tgs; mc_skl := s; mc_art := a |}.
(** an observed iteration given by indices into the inserted entries *)
Definition Ix (ops : list entry) (ns : list N) : list entry :=
  flat_map (fun n => match nth_error ops (N.to_nat n) with Some e => [e] | None => [] end) ns.

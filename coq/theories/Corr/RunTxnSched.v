(** Correspondence for C05: the harness runs transactions in goroutines under
    the controlled scheduler (one grant = one region between yield points of
    the real oracle), and reports the schedule, every thread's read timestamp,
    the values it read and its commit result, and the final versions of the
    keys.  [check] replays the schedule in [Model.TxnSched] (repaired oracle)
    and compares; independently of the model, every committer writes the same
    tag to all keys, so all values one transaction reads must be equal
    (no partial view, repeatable reads) and all keys must end with the same
    version list. *)
From Coq Require Export List NArith Bool String.
From NoKV Require Export Base.Bytes Base.Sched Spec.SerialSpec Model.TxnOracle Model.TxnSched Corr.Common.
Export ListNotations.
Local Open Scope N_scope.

Inductive ores := ONone | OConflict | OOkc | OOther.
Record tobs := { ob_rts : N; ob_reads : kvs; ob_res : ores }.

Record case := {
  c_base : N;                 (* the DB was reopened over a store whose maximal version is c_base (0 = fresh) *)
  c_detect : bool;
  c_fps : list (bytes * N);
  c_progs : list tprog;
  c_sched : list N;
  c_obs : list tobs;
  c_dumps : list (bytes * list (N * option bytes)) }.

Fixpoint fp_of (t : list (bytes * N)) (k : bytes) : N :=
  match t with [] => 0 | (k', h) :: t' => if bytes_eqb k' k then h else fp_of t' k end.

Definition prog_of (l : list tprog) (t : N) : tprog :=
  nth (N.to_nat t) l {| p_reads := []; p_writes := [] |}.

Fixpoint kvs_eqb (a b : kvs) : bool :=
  match a, b with
  | [], [] => true
  | (k, v) :: a', (k', v') :: b' => bytes_eqb k k' && obytes_eqb v v' && kvs_eqb a' b'
  | _, _ => false
  end.

Definition res_matches (m : cres) (o : ores) : bool :=
  match m, o with CNone, ONone | CConflict, OConflict | COk _, OOkc => true | _, _ => false end.

Definition thread_matches (pc : tpc) (o : tobs) : bool :=
  match pc with
  | PFin r obs res => (r =? ob_rts o) && kvs_eqb (rev obs) (ob_reads o) && res_matches res (ob_res o)
  | _ => false
  end.

Fixpoint dump_eqb (a b : list (N * option bytes)) : bool :=
  match a, b with
  | [], [] => true
  | (v, x) :: a', (w, y) :: b' => (v =? w) && obytes_eqb x y && dump_eqb a' b'
  | _, _ => false
  end.

Definition model_dump (st : store) (k : bytes) : list (N * option bytes) :=
  map (fun e => (se_ver e, se_val e)) (filter (fun e => bytes_eqb (se_key e) k) st).

Definition the_cfg (d : bool) : cfg := {| cf_detect := d; cf_maxcount := 64; cf_maxsize := 1048576; cf_vthr := 1024 |}.

Fixpoint all_match (s : sstate) (t : N) (l : list tobs) : bool :=
  match l with
  | [] => true
  | o :: l' => thread_matches (s_threads s t) o && all_match s (t + 1) l'
  end.

Definition agree (c : case) : bool :=
  let s0 := {| s_orc := orc_init (c_base c); s_store := []; s_threads := fun t => PNew (prog_of (c_progs c) t);
               s_issued := [] |} in
  let s := Sched.run (tstep true (fp_of (c_fps c)) (the_cfg (c_detect c))) s0 (c_sched c) in
  all_match s 0 (c_obs c) &&
  forallb (fun d => dump_eqb (model_dump (s_store s) (fst d)) (snd d)) (c_dumps c).

(** model-independent oracles, from the observations and the final version
    lists of the real store only:
    - snapshot: every value a transaction read is the newest version at or
      below its read timestamp in the final store (no partial view, no late
      commit, repeatable reads);
    - no lost update: a committed transaction (conflict detection on) read no
      key that has a version strictly between its read timestamp and its own
      commit version. *)
Fixpoint dump_of (d : list (bytes * list (N * option bytes))) (k : bytes) : list (N * option bytes) :=
  match d with [] => [] | (k', l) :: d' => if bytes_eqb k' k then l else dump_of d' k end.

Fixpoint snap (l : list (N * option bytes)) (r : N) : option bytes :=      (* newest first *)
  match l with [] => None | (v, x) :: l' => if v <=? r then x else snap l' r end.

Definition snapshot_ok (c : case) (o : tobs) : bool :=
  forallb (fun kv => obytes_eqb (snd kv) (snap (dump_of (c_dumps c) (fst kv)) (ob_rts o))) (ob_reads o).

Fixpoint version_of (l : list (N * option bytes)) (tag : option bytes) : option N :=
  match l with [] => None | (v, x) :: l' => if obytes_eqb x tag then Some v else version_of l' tag end.

Definition no_lost_update (c : case) (p : tprog) (o : tobs) : bool :=
  match ob_res o, p_writes p with
  | OOkc, (wk, tag) :: _ =>
      match version_of (dump_of (c_dumps c) wk) tag with
      | Some cts =>
          negb (c_detect c) ||
          forallb (fun kv => forallb (fun e => negb ((ob_rts o <? fst e) && (fst e <? cts)))
                                     (dump_of (c_dumps c) (fst kv))) (ob_reads o)
      | None => false                       (* committed, yet its write is not in the store *)
      end
  | _, _ => true
  end.

Definition spec_ok (c : case) : bool :=
  forallb (snapshot_ok c) (c_obs c) &&
  forallb (fun po => no_lost_update c (fst po) (snd po)) (combine (c_progs c) (c_obs c)).

Definition check (c : case) : verdict := mk_verdict (negb (agree c)) (negb (spec_ok c)) 0.

(* compact constructors *)
Definition V (s : string) : option bytes := Some (unhex s).
Definition FP (k : string) (h : N) : bytes * N := (unhex k, h).
Definition KV (k : string) (v : option bytes) : bytes * option bytes := (unhex k, v).
Definition K (s : string) : bytes := unhex s.
Definition Pg (reads : list bytes) (ws : kvs) : tprog := {| p_reads := reads; p_writes := ws |}.
Definition Ob (r : N) (reads : kvs) (res : ores) : tobs := {| ob_rts := r; ob_reads := reads; ob_res := res |}.
Definition Dm (k : string) (l : list (N * option bytes)) := (unhex k, l).
Definition Cs (b : N) (d : bool) (f : list (bytes * N)) (p : list tprog) (sc : list N) (o : list tobs)
              (dm : list (bytes * list (N * option bytes))) : case :=
  {| c_base := b; c_detect := d; c_fps := f; c_progs := p; c_sched := sc; c_obs := o; c_dumps := dm |}.

(** Correspondence for C26: the harness drives pd/server.Service
    (RegionHeartbeat / RemoveRegion / GetRegionByKey) over a LocalStore, and
    restarts it (close, reopen, Load, restore in ascending id order as
    cmd/nokv/pd.go:restorePDRegions does).  Every step's observed outcome is
    compared with the model (Model/Pd.v) and judged by the oracles of
    Spec/PdSpec.v, which run on a catalog maintained from the *observed*
    accept / remove results only. *)
From Coq Require Export List NArith Bool String.
From NoKV Require Export Base.Bytes Model.Pd Spec.PdSpec Corr.Common.
Export ListNotations.
Local Open Scope N_scope.

(** Heartbeat result codes: 0 accepted, 1 invalid id, 2 invalid range,
    3 stale, 4 overlap, anything else = unexpected. *)
Inductive obs :=
| OHeartbeat (m : region) (code : N)
| ORemove (id : N) (existed : bool)
| OLookup (k : bytes) (res : option region)
| OSnapshot (rs : list region)
| ORestart (ok : bool) (rs : list region).

Definition case := list obs.

Definition code_of (r : catalog + err) : N :=
  match r with
  | inl _ => 0
  | inr ErrInvalidID => 1
  | inr ErrInvalidRange => 2
  | inr ErrStale => 3
  | inr ErrOverlap => 4
  end.

Fixpoint regions_eqb (a b : list region) : bool :=
  match a, b with
  | [], [] => true
  | x :: a', y :: b' => region_eqb x y && regions_eqb a' b'
  | _, _ => false
  end.

Definition oregion_eqb (a b : option region) : bool :=
  match a, b with
  | None, None => true
  | Some x, Some y => region_eqb x y
  | _, _ => false
  end.

Definition sorted (c : catalog) : list region := sort_by by_id c.

(** state: model, specification catalog, mismatch, violation *)
Fixpoint walk (s : pd) (spec : catalog) (l : list obs) (mm vv : bool) : bool * bool :=
  match l with
  | [] => (mm, vv)
  | OHeartbeat m code :: l' =>
      let accepted := code =? 0 in
      walk (step s (Heartbeat m)) (if accepted then put m spec else spec) l'
           (mm || negb (code_of (upsert (mem s) m) =? code))
           (vv || negb (Bool.eqb accepted (acceptable_b spec m)))
  | ORemove id ex :: l' =>
      walk (step s (Remove id)) (remove_id id spec) l'
           (mm || negb (Bool.eqb (snd (remove (mem s) id)) ex))
           (vv || negb (Bool.eqb ex (match find id spec with Some _ => negb (id =? 0) | None => false end)))
  | OLookup k res :: l' =>
      walk s spec l'
           (mm || negb (oregion_eqb (route (mem s) k) res))
           (vv || negb (route_ok_b spec k res))
  | OSnapshot rs :: l' =>
      walk s spec l'
           (mm || negb (regions_eqb (sorted (mem s)) rs))
           (vv || negb (regions_eqb (sorted spec) rs))
  | ORestart ok rs :: l' =>
      match restore (disk s) with
      | Some c' =>
          walk {| mem := c'; disk := disk s |} spec l'
               (mm || negb ok || negb (regions_eqb (sorted c') rs))
               (vv || negb ok || negb (regions_eqb (sorted spec) rs))
      | None =>
          walk {| mem := []; disk := disk s |} spec l' (mm || ok) (vv || negb ok || negb (regions_eqb (sorted spec) rs))
      end
  end.

Definition check (c : case) : verdict :=
  let '(mm, vv) := walk pd_init [] c false false in mk_verdict mm vv 0.

(* compact constructors *)
Definition Rg (id : N) (s e : string) (v c : N) : region :=
  {| g_id := id; g_start := unhex s; g_end := unhex e; g_ver := v; g_conf := c |}.
Definition HB := OHeartbeat.
Definition RM := ORemove.
Definition LK (k : string) (r : option region) := OLookup (unhex k) r.
Definition SN := OSnapshot.
Definition RS := ORestart.

(** Correspondence for C21.  The harness drives a real WALStorage (group 1),
    a second one (group 2) and raw LSM-type appends on one real wal.Manager +
    manifest; after every operation it reports the operation's result, the
    live observables, and the observables of a *crash image* (the directory
    copied without flushing or closing anything, then VerifyDir + wal.Open +
    manifest.Open + OpenWALStorage on the copy).  An [OCrash] operation
    continues the history on such an image.

    mismatch  = result / live observables / crash-image observables differ
                from the model of the current tree ([sync = true]);
    violation = a crash image contradicts the persisted history (Spec:
                [recovers_b]), or the recovered hard state went backwards
                along a history whose hard states form a chain. *)
From Coq Require Export List NArith Bool String.
From NoKV Require Export Model.RaftStore Spec.RaftStoreSpec Corr.Common.
Export ListNotations.
Local Open Scope N_scope.

Record stepobs := {
  so_op : op;
  so_out : res unit;
  so_live : option obs;          (* None: no storage object (reopen failed) *)
  so_probe : option (res obs)    (* None: no crash image was taken here *)
}.
Record case := { c_steps : list stepobs }.

Definition err_eqb (a b : err) : bool :=
  match a, b with
  | EPanic, EPanic | ECompacted, ECompacted | EUnavailable, EUnavailable
  | ESnapOutOfDate, ESnapOutOfDate | EPtrNotFound, EPtrNotFound | EPtrNonRaft, EPtrNonRaft => true
  | _, _ => false     (* EOther never equals anything *)
  end.
Definition out_eqb (a b : res unit) : bool :=
  match a, b with
  | Ok _, Ok _ => true
  | Err x, Err y => err_eqb x y
  | _, _ => false
  end.
Definition robs_eqb (a b : res obs) : bool :=
  match a, b with
  | Ok x, Ok y => obs_eqb x y
  | Err x, Err y => err_eqb x y
  | _, _ => false
  end.

Definition hs_chain_step (prev : hardstate) (o : op) : bool * hardstate :=
  match o with
  | OHs h => if hs_is_empty h then (true, prev) else (hs_le_b prev h, h)
  | _ => (true, prev)
  end.

(** state of the evaluation: model state, ops so far (reversed), chain still
    holds, last persisted hs, last recovered hs, mismatch, violation *)
Record acc := {
  k_st : state; k_ops : list op; k_chain : bool; k_prev : hardstate; k_rec : hardstate;
  k_mis : bool; k_vio : bool }.

Definition eval_step (a : acc) (so : stepobs) : acc :=
  let o := so_op so in
  let (s', out) := step true (k_st a) o in
  let ops' := k_ops a ++ [o] in
  let (ch, prev') := hs_chain_step (k_prev a) o in
  let chain' := k_chain a && ch in
  let live_ok :=
    match so_live so with
    | Some lo => negb (st_dead s') && obs_eqb lo (observe (st_mem s'))
    | None => st_dead s'
    end in
  let mis1 := negb (out_eqb out (so_out so)) || negb live_ok in
  match so_probe so with
  | None =>
      {| k_st := s'; k_ops := ops'; k_chain := chain'; k_prev := prev'; k_rec := k_rec a;
         k_mis := k_mis a || mis1; k_vio := k_vio a |}
  | Some pr =>
      let mis2 := negb (robs_eqb (probe s' 0) pr) in
      let vio1 := negb (recovers_b ops' pr) in
      let vio2 := match pr with
                  | Ok po => chain' && negb (hs_le_b (k_rec a) (o_hs po))
                  | Err _ => false
                  end in
      let rec' := match pr with Ok po => o_hs po | Err _ => k_rec a end in
      {| k_st := s'; k_ops := ops'; k_chain := chain'; k_prev := prev'; k_rec := rec';
         k_mis := k_mis a || mis1 || mis2; k_vio := k_vio a || vio1 || vio2 |}
  end.

Definition check (c : case) : verdict :=
  let a := fold_left eval_step (c_steps c)
             {| k_st := init; k_ops := []; k_chain := true; k_prev := hs_empty; k_rec := hs_empty;
                k_mis := false; k_vio := false |} in
  mk_verdict (k_mis a) (k_vio a) 0.

(* compact constructors for the harness *)
Definition H := HS.
Definition Ob (h : hardstate) (si st fi la : N) (es : list (N * entry)) : obs :=
  {| o_hs := h; o_snapi := si; o_snapt := st; o_first := fi; o_last := la; o_ents := es |}.
Definition St (o : op) (out : res unit) (live : option obs) (pr : option (res obs)) : stepobs :=
  {| so_op := o; so_out := out; so_live := live; so_probe := pr |}.
Definition Cs (l : list stepobs) : case := {| c_steps := l |}.
Definition OK : res unit := Ok tt.
Definition ER (e : err) : res unit := Err e.

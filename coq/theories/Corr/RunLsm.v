(** Correspondence for the LSM family (C01, C02, C12): the harness drives a
    real DB (background compaction paused, flushes gated) through writes,
    rotations, flushes, chosen compactions and reopen, and records what every
    read returned and what the layout looked like; the model replays the trace. *)
From Coq Require Export List NArith ZArith Bool String.
From NoKV Require Export Base.Bytes Model.Lsm Model.Targets Spec.MvccSpec Spec.LsmSpec Spec.LsmInvB Corr.Common.
Export ListNotations.
Local Open Scope N_scope.

Inductive xop :=
| XPut (r : rec)
| XRotate (newid : N)
| XFlush
| XCompact (k : kind) (lvl : N) (top bot : list N) (added : list (N * N))
| XReopen (memid maxfid : N)
| XGet (k : bytes) (v : N) (o : option (bytes * N))         (* GetVersionedEntry: (value, meta); the Version field it
                                                               reports is the requested one on memtable hits and is not compared *)
| XGetPlain (k : bytes) (o : option bytes)                  (* GetCF *)
| XSame (k : bytes) (v : N) (before after : option (bytes * N))  (* the same read before Close and after Open *)
| XCommit (r : rec)                                          (* a transaction committed one write; r_ver = its commit ts *)
| XLayout (imms : list N) (l0 : list N) (lvls : list (list (list N) * list N))
| XTargets (sizes : list N) (opts : list N) (base : N) (target file : list N).
    (* compact.BuildTargets on these level sizes and options (base level size, level multiplier,
       base table size, table multiplier, memtable size) returned this base level and these lists *)

Record case := { c_memid : N; c_now : N; c_ops : list xop }.

Definition max_ver : N := 18446744073709551615.

Definition proj (r : rec) : bytes * N := (r_val r, r_meta r).
Definition obs_eqb (a b : option (bytes * N)) : bool :=
  match a, b with
  | None, None => true
  | Some (x1, m1), Some (x2, m2) => bytes_eqb x1 x2 && (m1 =? m2)
  | _, _ => false
  end.
Definition oval_eqb (a b : option bytes) : bool :=
  match a, b with
  | None, None => true
  | Some x, Some y => bytes_eqb x y
  | _, _ => false
  end.

(** db.isDeletedOrExpired *)
Definition dead (now : N) (r : rec) : bool :=
  negb (N.land (r_meta r) 1 =? 0) || (negb (r_exp r =? 0) && (r_exp r <=? now)).
Definition plain_view (now : N) (o : option rec) : option bytes :=
  match o with Some r => if dead now r then None else Some (r_val r) | None => None end.

Definition fids (ts : list table) : list N := map t_fid ts.
Definition nlist_eqb (a b : list N) : bool := if list_eq_dec N.eq_dec a b then true else false.
Definition same_set (a b : list N) : bool :=
  (Nat.eqb (List.length a) (List.length b)) && forallb (fun x => existsb (N.eqb x) b) a && forallb (fun x => existsb (N.eqb x) a) b.

Definition level_layout_ok (lv : level) (o : list (list N) * list N) : bool :=
  nlist_eqb (fids (lv_main lv)) (snd o) &&
  (Nat.eqb (List.length (lv_shards lv)) (List.length (fst o))) &&
  forallb (fun p => same_set (fids (fst p)) (snd p)) (combine (lv_shards lv) (fst o)).

(** Adopt the observed order inside each shard (sort.Slice is unstable for
    equal min keys): reorder the model's tables to the observed fid order. *)
Definition reorder (ts : list table) (order : list N) : list table :=
  List.concat (map (fun f => filter (fun t => t_fid t =? f) ts) order).
Definition adopt (lv : level) (o : list (list N) * list N) : level :=
  {| lv_shards := map (fun p => reorder (fst p) (snd p)) (combine (lv_shards lv) (fst o)); lv_main := lv_main lv |}.

Definition set_maxfid (s : state) (m : N) : state :=
  {| st_mem := st_mem s; st_memid := st_memid s; st_imms := st_imms s; st_l0 := st_l0 s; st_lvls := st_lvls s; st_maxfid := m |}.
Definition set_memid (s : state) (m : N) : state :=
  {| st_mem := st_mem s; st_memid := m; st_imms := st_imms s; st_l0 := st_l0 s; st_lvls := st_lvls s; st_maxfid := N.max m (st_maxfid s) |}.

(** Running state of the replay. *)
Record acc := { a_st : state; a_ws : list rec; a_mis : bool; a_vio : bool; a_known : N; a_next : N;
  a_broken : bool;  (* some state of the run violated the recency order of equal internal keys ([tier_inv_b]) *)
  a_gone : list N;  (* main tables that an ingest keep-merge (IngestKeep) folded into its output: the manifest records their
                       deletion, the level keeps listing them until it is reloaded (runCompactDef only replaces the ingest
                       tables); their records all live on in the merged table, no read can tell *)
  a_struct : bool   (* some state had an unsorted source, overlapping main tables ([src_b] false) or a cross-tier recency inversion ([cross_b] false): never a known class *) }.

Definition topt_of (l : list N) : topt :=
  {| o_base_level_size := Z.of_N (nth 0 l 0); o_level_mult := Z.of_N (nth 1 l 0); o_base_table := Z.of_N (nth 2 l 0);
     o_table_mult := Z.of_N (nth 3 l 0); o_memtable := Z.of_N (nth 4 l 0) |}.
Definition zlist_eqb (a : list Z) (b : list N) : bool :=
  if list_eq_dec Z.eq_dec a (map Z.of_N b) then true else false.

(** The level lists as reloaded from the manifest: without the tables it recorded as deleted. *)
Definition drop_gone (zs : list N) (s : state) : state :=
  {| st_mem := st_mem s; st_memid := st_memid s; st_imms := st_imms s; st_l0 := st_l0 s;
     st_lvls := map (fun lv => {| lv_shards := lv_shards lv; lv_main := drop zs (lv_main lv) |}) (st_lvls s);
     st_maxfid := st_maxfid s |}.

Definition classify (spec model : option rec) (obs : option (bytes * N)) : N :=
  (* a violation the faithful model reproduces: 1 = an older write of the same
     version won.  (Class 2, "a lower version won", is gone with the repair of
     the first-hit rule of LSM.Get: a wrong version is never a known class.) *)
  if negb (obs_eqb (option_map proj model) obs) then 0
  else match spec, model with
       | Some w, Some m => if r_ver m =? r_ver w then 1 else 0
       | _, _ => 0
       end.

Definition step (now : N) (a : acc) (o : xop) : acc :=
  let s := a_st a in
  match o with
  | XPut r => {| a_st := put s r; a_ws := a_ws a ++ [r]; a_mis := a_mis a; a_vio := a_vio a; a_known := a_known a; a_next := a_next a; a_broken := a_broken a; a_struct := a_struct a; a_gone := a_gone a |}
  | XRotate newid =>
      {| a_st := set_memid (set_maxfid (rotate s) (N.max (st_maxfid s) newid)) newid;
         a_ws := a_ws a; a_mis := a_mis a; a_vio := a_vio a; a_known := a_known a; a_next := a_next a; a_broken := a_broken a; a_struct := a_struct a; a_gone := a_gone a |}
  | XFlush => {| a_st := flush s; a_ws := a_ws a; a_mis := a_mis a; a_vio := a_vio a; a_known := a_known a; a_next := a_next a; a_broken := a_broken a; a_struct := a_struct a; a_gone := a_gone a |}
  | XCompact k lvl top bot added =>
      {| a_st := compact s k lvl top bot added; a_ws := a_ws a; a_mis := a_mis a; a_vio := a_vio a; a_known := a_known a; a_next := a_next a; a_broken := a_broken a; a_struct := a_struct a;
         a_gone := match k with KKeep => a_gone a ++ bot | _ => a_gone a end |}
  | XReopen memid maxfid =>
      let s' := reopen (drop_gone (a_gone a) s) in
      {| a_st := set_maxfid s' maxfid; a_ws := a_ws a;
         a_mis := a_mis a || negb (st_memid s' =? memid); a_vio := a_vio a; a_known := a_known a;
         a_next := next_ts_after_open s'; a_broken := a_broken a; a_struct := a_struct a; a_gone := [] |}
  | XGet k v obs =>
      let m := get s k v in
      let sp := latest_at (a_ws a) k v in
      let bad := negb (obs_eqb (option_map proj sp) obs) in
      (* a known class only when the state really violates the recency-order invariant
         under which reads are proved correct (C01_reads_latest) *)
      let cls := if bad then (if a_broken a && negb (a_struct a) then classify sp m obs else 0) else 0 in
      {| a_st := s; a_ws := a_ws a;
         a_mis := a_mis a || negb (obs_eqb (option_map proj m) obs);
         a_vio := a_vio a || bad;
         a_known := if bad then (if cls =? 0 then 999 else N.max cls (a_known a)) else a_known a; a_next := a_next a; a_broken := a_broken a; a_struct := a_struct a; a_gone := a_gone a |}
  | XGetPlain k obs =>
      let m := get s k max_ver in
      let sp := latest_at (a_ws a) k max_ver in
      let bad := negb (oval_eqb (plain_view now sp) obs) in
      let agree := oval_eqb (plain_view now m) obs in
      {| a_st := s; a_ws := a_ws a;
         a_mis := a_mis a || negb agree;
         a_vio := a_vio a || bad;
         a_known := if bad then (if agree && a_broken a && negb (a_struct a) then N.max 1 (a_known a) else 999) else a_known a; a_next := a_next a; a_broken := a_broken a; a_struct := a_struct a; a_gone := a_gone a |}
  | XSame k v before after =>
      let bad := negb (obs_eqb before after) in
      {| a_st := s; a_ws := a_ws a; a_mis := a_mis a; a_vio := a_vio a || bad;
         a_known := if bad then 999 else a_known a; a_next := a_next a; a_broken := a_broken a; a_struct := a_struct a; a_gone := a_gone a |}
  | XCommit r =>
      (* the commit timestamp must exceed every stored version that is not the plain-API sentinel *)
      let stale := existsb (fun w => negb (r_ver w =? max_ver) && (r_ver r <=? r_ver w)) (a_ws a) in
      {| a_st := put s r; a_ws := a_ws a ++ [r];
         a_mis := a_mis a || negb (r_ver r =? a_next a);
         a_vio := a_vio a || stale;
         a_known := if stale then 999 else a_known a; a_next := r_ver r + 1; a_broken := a_broken a; a_struct := a_struct a; a_gone := a_gone a |}
  | XTargets sizes opts base target file =>
      let zs := map Z.of_N sizes in
      let t := build_targets zs (topt_of opts) in
      let agree := (N.of_nat (t_base t) =? base) && zlist_eqb (t_target t) target && zlist_eqb (t_file t) file in
      (* specification: an L0 move to the base level must not pass a level that holds data *)
      let bad := negb (base_above_data zs (N.to_nat base)) in
      {| a_st := s; a_ws := a_ws a; a_mis := a_mis a || negb agree; a_vio := a_vio a || bad;
         a_known := if bad then 999 else a_known a; a_next := a_next a; a_broken := a_broken a; a_struct := a_struct a; a_gone := a_gone a |}
  | XLayout imms l0 lvls =>
      let ok := nlist_eqb (map fst (st_imms s)) imms && nlist_eqb (fids (st_l0 s)) l0 &&
                (Nat.eqb (List.length (st_lvls s)) (List.length lvls)) &&
                forallb (fun p => level_layout_ok (fst p) (snd p)) (combine (st_lvls s) lvls) in
      let s' := {| st_mem := st_mem s; st_memid := st_memid s; st_imms := st_imms s; st_l0 := st_l0 s;
                   st_lvls := map (fun p => adopt (fst p) (snd p)) (combine (st_lvls s) lvls);
                   st_maxfid := st_maxfid s |} in
      {| a_st := if ok then s' else s; a_ws := a_ws a; a_mis := a_mis a || negb ok; a_vio := a_vio a; a_known := a_known a; a_next := a_next a; a_broken := a_broken a; a_struct := a_struct a; a_gone := a_gone a |}
  end.

Definition changes_state (o : xop) : bool :=
  match o with XPut _ | XRotate _ | XFlush | XCompact _ _ _ _ _ | XReopen _ _ | XCommit _ | XLayout _ _ _ => true | _ => false end.

(** Copies of one internal key in DIFFERENT tiers (memtables, L0, each level) must be
    most-recent-first: a newer copy below an older one can only come from a planner or
    maintenance defect and is never attributed to the known ingest/L0 ordering finding,
    which concerns copies inside one tier. *)
Fixpoint cross_b (tiers : list (list (list rec))) : bool :=
  match tiers with
  | [] => true
  | t :: rest => forallb (fun t0 => src_before_b (List.concat t) (List.concat t0)) rest && cross_b rest
  end.

Definition step' (now : N) (a : acc) (o : xop) : acc :=
  let a' := step now a o in
  if changes_state o && negb (a_broken a' && a_struct a') then
    let ok := tier_inv_b (a_st a') in
    let sok := src_b (a_st a') && cross_b (tiers_of (a_st a')) in
    {| a_st := a_st a'; a_ws := a_ws a'; a_mis := a_mis a'; a_vio := a_vio a'; a_known := a_known a';
       a_next := a_next a'; a_broken := a_broken a' || negb ok; a_struct := a_struct a' || negb sok; a_gone := a_gone a' |}
  else a'.

Definition replay (c : case) : acc :=
  fold_left (step' (c_now c)) (c_ops c)
            {| a_st := init (c_memid c); a_ws := []; a_mis := false; a_vio := false; a_known := 0; a_next := 1; a_broken := false; a_struct := false; a_gone := [] |}.

(** [a_known = 999] marks a violation outside every known class. *)
Definition check (c : case) : verdict :=
  let a := replay c in
  mk_verdict (a_mis a) (a_vio a) (if a_known a =? 999 then 0 else a_known a).

(* compact constructors for the harness *)
Definition Rc (k : string) (ver : N) (v : string) (meta exp seq : N) : rec :=
  {| r_key := unhex k; r_ver := ver; r_val := unhex v; r_meta := meta; r_exp := exp; r_seq := seq |}.
Definition G (k : string) (v : N) (o : option (string * N)) : xop :=
  XGet (unhex k) v (option_map (fun t => (unhex (fst t), snd t)) o).
Definition SM (k : string) (v : N) (b a : option (string * N)) : xop :=
  XSame (unhex k) v (option_map (fun t => (unhex (fst t), snd t)) b) (option_map (fun t => (unhex (fst t), snd t)) a).
Definition GP (k : string) (o : option string) : xop := XGetPlain (unhex k) (option_map unhex o).
Definition Cs (memid now : N) (ops : list xop) : case := {| c_memid := memid; c_now := now; c_ops := ops |}.

(** Correspondence for C31: the harness feeds byte strings to the real
    [parseRESP] (in a child process built from cmd/nokv-redis with -tags
    verif) and reports outcome class, parsed arguments, bytes consumed and
    bytes allocated (runtime.MemStats.TotalAlloc around the call).

    mismatch  = the model ([parse repaired_limits]) disagrees on class,
                arguments or consumed bytes, or the measured allocation is
                below the model's [make] requests or more than
                [slack_c1 * |input| + slack_c0] above them;
    violation = [obs_ok_b] (Spec/RespSpec.v) fails: panic / crash, allocation
                out of proportion, or a well-formed frame not parsed into
                exactly its arguments. *)
From Coq Require Export List NArith ZArith Bool String.
From NoKV Require Export Base.Bytes Model.Resp Spec.RespSpec Corr.Common.
Export ListNotations.
Local Open Scope N_scope.

(** Inputs are printed as pieces so that long runs stay short in the case files. *)
Inductive piece := H (hex : string) | R (n : N) (hex : string).

Definition piece_bytes (p : piece) : bytes :=
  match p with
  | H h => unhex h
  | R n h => let pat := unhex h in N.iter n (fun acc => pat ++ acc) []
  end.

Definition pieces (ps : list piece) : bytes := List.concat (map piece_bytes ps).

Definition oarg := option (list piece).
Definition oarg_bytes (a : oarg) : option bytes :=
  match a with None => None | Some ps => Some (pieces ps) end.

Record case := { c_input : bytes; c_frame : frame; c_obs : obs }.

Definition perr_eqb (a b : perr) : bool :=
  match a, b with
  | EEOF, EEOF | EUnexpectedEOF, EUnexpectedEOF | EInvalidMultibulk, EInvalidMultibulk
  | EExpectedBulk, EExpectedBulk | EInvalidBulk, EInvalidBulk | EBadTerminator, EBadTerminator
  | EExpectedCR, EExpectedCR | EExpectedLF, EExpectedLF => true
  | _, _ => false
  end.

Definition slack_c1 : N := 64.
Definition slack_c0 : N := 16384.

Definition class_agrees (input : bytes) (m : presult) (o : obs) : bool :=
  match m, o_class o with
  | POk nil1 a1 rest, OOk nil2 a2 =>
      Bool.eqb nil1 nil2 && args_eqb a1 a2 && (o_consumed o =? len input - len rest)
  | PErr e1 rest, OErr e2 => perr_eqb e1 e2 && (o_consumed o =? len input - len rest)
  | PPanic _, OPanic => true
  | _, _ => false
  end.

Definition check (c : case) : verdict :=
  let '(al, m) := parse repaired_limits (c_input c) in
  let o := c_obs c in
  let alloc_agrees :=
    match o_class o with
    | OCrash | OPanic => true
    | _ => (sumN al <=? o_alloc o) && (o_alloc o <=? sumN al + slack_c1 * len (c_input c) + slack_c0)
    end in
  mk_verdict (negb (class_agrees (c_input c) m o && alloc_agrees))
             (negb (obs_ok_b (c_input c) (c_frame c) o))
             0.

(* constructor helpers for the harness *)
Definition Ob (cl : oclass) (consumed alloc : N) : obs :=
  {| o_class := cl; o_consumed := consumed; o_alloc := alloc |}.
Definition Ok_ (isnil : bool) (args : list oarg) : oclass := OOk isnil (map oarg_bytes args).
Definition RA (k : N) (pat : list oarg) : list oarg := N.iter k (app pat) [].
Definition FA (args : list oarg) (rest : list piece) : frame := FArray (map oarg_bytes args) (pieces rest).
Definition FI (fs : list (list piece)) (rest : list piece) : frame := FInline (map pieces fs) (pieces rest).
Definition Cs (input : list piece) (f : frame) (o : obs) : case :=
  {| c_input := pieces input; c_frame := f; c_obs := o |}.

(** Correspondence for C31: the harness feeds byte strings to the real
    [parseRESP] (in a child process built from cmd/nokv-redis with -tags
    verif) and reports outcome class, parsed arguments, bytes consumed and
    bytes allocated (runtime.MemStats.TotalAlloc around the call).

    mismatch  = the model ([parse repaired_limits]) disagrees on class,
                arguments or consumed bytes, or the measured allocation is
                below the model's [make] requests or more than
                [slack_c1 * |input| + slack_c0] above them;
    violation = [obs_ok_b] (Spec/RespSpec.v) fails: panic / crash, allocation
                out of proportion, or a well-formed frame not parsed into
                exactly its arguments. *)
From Coq Require Export List NArith ZArith Bool String.
From NoKV Require Export Base.Bytes Model.Resp Model.Redis Model.RespConn Spec.RespSpec Corr.Common.
Export ListNotations.
Local Open Scope N_scope.

(** Inputs are printed as pieces so that long runs stay short in the case files. *)
Inductive piece := H (hex : string) | R (n : N) (hex : string).

Definition piece_bytes (p : piece) : bytes :=
  match p with
  | H h => unhex h
  | R n h => let pat := unhex h in N.iter n (fun acc => pat ++ acc) []
  end.

Definition pieces (ps : list piece) : bytes := List.concat (map piece_bytes ps).

Definition oarg := option (list piece).
Definition oarg_bytes (a : oarg) : option bytes :=
  match a with None => None | Some ps => Some (pieces ps) end.

(** What a client observed when the same bytes went through the real
    connection loop (handleConn) over TCP: it sends the input, closes its
    sending side and reads until the server closes; then a second connection
    sends PING. [co_clean] = the read ended with a clean EOF (false: the
    server closed with unread input and the kernel reset the connection, the
    tail of the reply stream may be lost). *)
Record conn_obs := { co_now : N; co_bytes : bytes; co_clean : bool; co_alive : bool }.

Record case := { c_input : bytes; c_frame : frame; c_obs : obs; c_conn : option conn_obs }.

Definition perr_eqb (a b : perr) : bool :=
  match a, b with
  | EEOF, EEOF | EUnexpectedEOF, EUnexpectedEOF | EInvalidMultibulk, EInvalidMultibulk
  | EExpectedBulk, EExpectedBulk | EInvalidBulk, EInvalidBulk | EBadTerminator, EBadTerminator
  | EExpectedCR, EExpectedCR | EExpectedLF, EExpectedLF => true
  | _, _ => false
  end.

Definition slack_c1 : N := 64.
Definition slack_c0 : N := 16384.

Definition class_agrees (input : bytes) (m : presult) (o : obs) : bool :=
  match m, o_class o with
  | POk nil1 a1 rest, OOk nil2 a2 =>
      Bool.eqb nil1 nil2 && args_eqb a1 a2 && (o_consumed o =? len input - len rest)
  | PErr e1 rest, OErr e2 => perr_eqb e1 e2 && (o_consumed o =? len input - len rest)
  | PPanic _, OPanic => true
  | _, _ => false
  end.

(** The reply stream predicted by the model, matched against the observed bytes.
    Error texts that quote input with %q, and "unknown command" replies for
    names that are not printable ASCII (Go lower-cases by rune and replaces
    invalid UTF-8), are matched by their prefix up to the end of the line. *)
Definition parse_err_prefix (e : perr) : bytes * bool (* exact *) :=
  match e with
  | EInvalidMultibulk => (s_ "-ERR invalid multibulk length ", false)
  | EInvalidBulk => (s_ "-ERR invalid bulk length ", false)
  | EExpectedBulk => (s_ "-ERR expected bulk string" ++ [CR; LF], true)
  | EBadTerminator => (s_ "-ERR invalid line terminator" ++ [CR; LF], true)
  | EExpectedCR => (s_ "-ERR expected CR" ++ [CR; LF], true)
  | EExpectedLF => (s_ "-ERR expected LF" ++ [CR; LF], true)
  | EUnexpectedEOF => (s_ "-ERR unexpected EOF" ++ [CR; LF], true)
  | EEOF => ([], true)
  end.

Definition printable (b : bytes) : bool :=
  forallb (fun x => (32 <=? b2n x) && (b2n x <=? 126)) b.

(** the reply line of an unknown command ends with "'" CR LF, but the echoed name
    may contain that sequence itself: try the continuation after every occurrence *)
Fixpoint try_after_quote_crlf (k : bytes -> bool) (s : bytes) : bool :=
  match s with
  | a :: t =>
      match t with
      | b :: c :: rest =>
          if byte_eqb a Byte.x27 && byte_eqb b CR && byte_eqb c LF
          then k rest || try_after_quote_crlf k t
          else try_after_quote_crlf k t
      | _ => false
      end
  | [] => false
  end.

Fixpoint after_crlf (s : bytes) : bytes :=
  match s with
  | a :: ((b :: rest) as t) => if byte_eqb a CR && byte_eqb b LF then rest else after_crlf t
  | _ => []
  end.

Fixpoint skipn_prefix (p s : bytes) : option bytes :=
  match p, s with
  | [], _ => Some s
  | x :: p', y :: s' => if byte_eqb x y then skipn_prefix p' s' else None
  | _ :: _, [] => None
  end.

(** [loose]: the observed stream may stop early (connection reset). *)
Fixpoint match_stream (loose : bool) (items : list item) (obs : bytes) : bool :=
  match items with
  | [] => match obs with [] => true | _ => false end
  | it :: rest =>
      match obs with
      | [] => loose
      | _ =>
          match it with
          | IReply (RErr (RUnknown n)) =>
              if printable n then
                match skipn_prefix (encode_reply (RErr (RUnknown n))) obs with
                | Some o => match_stream loose rest o
                | None => loose && is_prefix obs (encode_reply (RErr (RUnknown n)))
                end
              else
                match skipn_prefix (s_ "-ERR unknown command '") obs with
                | Some o => try_after_quote_crlf (match_stream loose rest) o || loose
                | None => loose && is_prefix obs (s_ "-ERR unknown command '")
                end
          | IReply r =>
              match skipn_prefix (encode_reply r) obs with
              | Some o => match_stream loose rest o
              | None => loose && is_prefix obs (encode_reply r)
              end
          | IParseErr e =>
              let '(p, exact) := parse_err_prefix e in
              match skipn_prefix p obs with
              | Some o => if exact then match_stream loose rest o else match_stream loose rest (after_crlf o)
              | None => loose && is_prefix obs p
              end
          | IPanic | IFuel => false
          end
      end
  end.

Definition conn_model_ok (input : bytes) (co : conn_obs) : bool :=
  co_alive co && match_stream (negb (co_clean co)) (conn_run [] (co_now co) input) (co_bytes co).

(** Specification side, independent of the model: whatever the bytes, the
    gateway is still alive and answers PING afterwards; and a well-formed frame
    of the generator that is a plain PING (followed by nothing) is answered
    with +PONG. *)
Definition conn_spec_ok (input : bytes) (f : frame) (co : conn_obs) : bool :=
  co_alive co.

Definition check (c : case) : verdict :=
  let '(al, m) := parse repaired_limits (c_input c) in
  let o := c_obs c in
  let alloc_agrees :=
    match o_class o with
    | OCrash | OPanic => true
    | _ => (sumN al <=? o_alloc o) && (o_alloc o <=? sumN al + slack_c1 * len (c_input c) + slack_c0)
    end in
  let conn_m := match c_conn c with Some co => conn_model_ok (c_input c) co | None => true end in
  let conn_s := match c_conn c with Some co => conn_spec_ok (c_input c) (c_frame c) co | None => true end in
  mk_verdict (negb (class_agrees (c_input c) m o && alloc_agrees && conn_m))
             (negb (obs_ok_b (c_input c) (c_frame c) o && conn_s))
             0.

(* constructor helpers for the harness *)
Definition Ob (cl : oclass) (consumed alloc : N) : obs :=
  {| o_class := cl; o_consumed := consumed; o_alloc := alloc |}.
Definition Ok_ (isnil : bool) (args : list oarg) : oclass := OOk isnil (map oarg_bytes args).
Definition RA (k : N) (pat : list oarg) : list oarg := N.iter k (app pat) [].
Definition FA (args : list oarg) (rest : list piece) : frame := FArray (map oarg_bytes args) (pieces rest).
Definition FI (fs : list (list piece)) (rest : list piece) : frame := FInline (map pieces fs) (pieces rest).
Definition Cs (input : list piece) (f : frame) (o : obs) : case :=
  {| c_input := pieces input; c_frame := f; c_obs := o; c_conn := None |}.
(** the same with the observation of the connection loop *)
Definition Cc (input : list piece) (f : frame) (o : obs) (now : N) (conn : list piece) (clean alive : bool) : case :=
  {| c_input := pieces input; c_frame := f; c_obs := o;
     c_conn := Some {| co_now := now; co_bytes := pieces conn; co_clean := clean; co_alive := alive |} |}.

(** Correspondence for C34: the harness runs goroutines issuing Set/Del/Get
    against a real DB, stamps call and return events with one atomic counter
    and reports the complete history; it must satisfy [lin_check] (proved to
    decide [linearizable]).  By [C34_linearizable] the model produces only
    linearizable histories, so a history that fails is both a model mismatch
    and a violation of the property.  A sanity check on the stamps (call
    before return) guards the harness itself. *)
From Coq Require Export List NArith Bool String.
From NoKV Require Export Base.Bytes Spec.SerialSpec Spec.Linearizable Corr.Common.
Export ListNotations.
Local Open Scope N_scope.

Record case := { c_hist : list lop }.

Definition stamps_sane (h : list lop) : bool := forallb (fun o => l_call o <? l_ret o) h.

Definition check (c : case) : verdict :=
  let bad := negb (stamps_sane (c_hist c) && lin_check (c_hist c)) in
  mk_verdict bad bad 0.

Definition V (s : string) : option bytes := Some (unhex s).
Definition W (t c r : N) (k : string) (v : option bytes) (ok : bool) : lop :=
  {| l_tid := t; l_call := c; l_ret := r; l_kind := LWrite (unhex k) v ok |}.
Definition R (t c r : N) (k : string) (v : option bytes) : lop :=
  {| l_tid := t; l_call := c; l_ret := r; l_kind := LRead (unhex k) v |}.
Definition Cs (h : list lop) : case := {| c_hist := h |}.

(** Correspondence for C36.  A real DB (SyncWrites, background compaction
    paused, flushes gated, no background watchdog) and WALStorages for groups 1
    and 2 share the DB's wal.Manager and manifest.  After every operation the
    harness reports the *.wal files present and the manifest raft pointers;
    after operations that can remove segments (and at the end) it copies the
    directory (crash image), opens it with NoKV.Open + OpenWALStorage and
    reports Get of every key and the raft observables.  A [WReopen g] step
    closes nothing and opens group g's WALStorage again on the live manager
    (what a restarting peer does); the manifest pointers reported after it are
    compared field by field like after every other step.

    mismatch  = files / pointers / recovered contents differ from Model/WalGc.v;
    violation = a segment that disappeared was needed (Spec/WalGcSpec.v
                [needed_b] in the state the operation ran in), or the manifest
                raft pointer's TruncatedIndex is not the truncation point of the
                history ([expect_raft]), or a crash image
                does not give back the last acknowledged value of a key
                ([expect_get]) or a group's persisted history
                ([raft_recovered_ok_b]) -- both functions of the history alone.
    known classes (known_findings.d/C36.json):
      1  flush of a non-empty memtable / watchdog removed a segment holding
         untruncated raft entries or the latest hard state of a group
      2  the watchdog removed a segment whose memtable was not flushed
      3  flush of an empty memtable removed such a segment without consulting
         the raft pointers
      4  after a removal of a segment holding records of a group, the group's
         storage cannot be reopened or misses persisted state
      5  a flushed segment retained for raft is replayed on reopen and its old
         LSM writes shadow newer values that are already in tables. *)
From Coq Require Export List NArith Bool String.
From NoKV Require Export Model.RaftStore Spec.RaftStoreSpec Model.WalGc Spec.WalGcSpec Corr.Common.
Export ListNotations.
Local Open Scope N_scope.

Record probe := {
  pr_segs : list N;                    (* *.wal ids present once the image DB is open *)
  pr_kvs : list (N * option N);        (* key -> Get *)
  pr_raft : list (N * res obs)         (* group -> reopened storage *)
}.
Record wstep := {
  w_op : wop;
  w_out : option bool;                 (* WReopen: did OpenWALStorage return a storage? *)
  w_segs : list N;                     (* *.wal ids present after the operation *)
  w_ptrs : list (N * (N * N * N));     (* gid -> (Segment, SegmentIndex, TruncatedIndex) *)
  w_probe : option probe
}.
Record case := { c_ids : list N; c_active : N; c_steps : list wstep }.

Definition listN_eqb (a b : list N) : bool := list_eqb N.eqb a b.
Definition optN_eqb (a b : option N) : bool :=
  match a, b with Some x, Some y => x =? y | None, None => true | _, _ => false end.
Definition err_eqb (a b : err) : bool :=
  match a, b with
  | EPanic, EPanic | ECompacted, ECompacted | EUnavailable, EUnavailable
  | ESnapOutOfDate, ESnapOutOfDate | EPtrNotFound, EPtrNotFound | EPtrNonRaft, EPtrNonRaft => true
  | _, _ => false
  end.
Definition robs_eqb (a b : res obs) : bool :=
  match a, b with
  | Ok x, Ok y => obs_eqb x y
  | Err x, Err y => err_eqb x y
  | _, _ => false
  end.

Definition ptr_matches (s : st) (gp : N * (N * N * N)) : bool :=
  let '(g, (sg, si, tr)) := gp in
  let p := g_ptr (group_get (s_groups s) g) in
  (gp_seg p =? sg) && (gp_segidx p =? si) && (gp_trunc p =? tr).

Definition removed_between (before after : list N) : list N :=
  filter (fun id => negb (existsb (N.eqb id) after)) before.

(** did a segment holding records of group [g] disappear so far? *)
Definition seg_has_group (rs : list wrec) (g : N) : bool :=
  existsb (fun r => match r with WEnts g' _ _ | WHs g' _ => g' =? g | _ => false end) rs.

Record acc := {
  k_st : st; k_ops : list wop; k_files : list N;
  k_lost_group : list N;       (* groups one of whose segments was removed *)
  k_wd_lsm : bool;             (* the watchdog removed an LSM-needed segment *)
  k_mis : bool;
  k_vio : list N               (* class of every violation seen; 0 = outside every class *)
}.

Definition classify_removal (s s' : st) (o : wop) (id : N) : N :=
  let raft := raft_needed_b s' id in
  let lsm := lsm_needed_b s s' id in
  match o with
  | WWatchdog => if lsm then 2 else if raft then 1 else 0
  | WFlush =>
      if lsm then 0
      else if raft then (match s_imms s with
                         | i :: _ => if (i =? id) && negb (seg_has_lsm_b s id) then 3 else 1
                         | [] => 0
                         end)
      else 0
  | _ => 0
  end.

Definition groups_in (s : st) (ids : list N) : list N :=
  flat_map (fun id =>
    match seg_recs (s_segs s) id with
    | Some rs => filter (seg_has_group rs) [1; 2]
    | None => []
    end) ids.

(** a segment at or below the log pointer (already flushed) survives the
    recovery cleanup and still holds LSM writes: it is replayed into a memtable *)
Definition stale_replay (s : st) : bool :=
  existsb (fun sg => (fst sg <=? s_logptr s) && match lsm_of (snd sg) with [] => false | _ => true end)
          (recovery_cleanup s).

(** the image DB runs lsm.recovery first: its removals are observed through
    the files present afterwards (it may also have created a new segment) *)
Definition eval_probe (a : acc) (s : st) (ops : list wop) (p : probe) : bool * list N :=
  let gone := removed_between (k_files a) (pr_segs p) in
  let mis_rm := negb (listN_eqb gone (recovery_removed s)) in
  let vio_rm := map (fun id => if lsm_needed_b s s id then 0 else 1) (filter (needed_b s s) gone) in
  let lost := k_lost_group a ++ groups_in s gone in
  let mis_kv := negb (forallb (fun kv => optN_eqb (snd kv) (recovered_get s (fst kv))) (pr_kvs p)) in
  let mis_raft := negb (forallb (fun gr => robs_eqb (snd gr) (recovered_raft s (fst gr))) (pr_raft p)) in
  let vio_kv :=
    if forallb (fun kv => optN_eqb (snd kv) (expect_get ops (fst kv) None)) (pr_kvs p) then []
    else [if k_wd_lsm a then 2 else if stale_replay s then 5 else 0] in
  let vio_raft :=
    flat_map (fun gr =>
      if raft_recovered_ok_b (fst gr) ops (snd gr) then []
      else [if existsb (N.eqb (fst gr)) lost then 4 else 0]) (pr_raft p) in
  (mis_rm || mis_kv || mis_raft, vio_rm ++ vio_kv ++ vio_raft).

Definition eval_step (a : acc) (w : wstep) : acc :=
  let s := k_st a in
  let o := w_op w in
  let (s', _) := step s o in
  let ops' := k_ops a ++ [o] in
  let gone := removed_between (k_files a) (w_segs w) in
  let bad := filter (needed_b s s') gone in
  let vio1 := map (classify_removal s s' o) bad in
  let lost := groups_in s gone in
  let wd := k_wd_lsm a || existsb (fun id => match o with WWatchdog => lsm_needed_b s s' id | _ => false end) gone in
  let mis0 := match o, w_out w with
              | WReopen g, Some ok => negb (Bool.eqb ok (snd (raft_reopen s g)))
              | WReopen _, None => true
              | _, _ => false
              end in
  let mis1 := mis0 || negb (listN_eqb (seg_ids (s_segs s')) (w_segs w)) ||
              negb (forallb (ptr_matches s') (w_ptrs w)) in
  (* the truncation point recorded in the manifest is a function of the history
     alone: it never moves back, whatever is reopened in between *)
  let vio_ptr := flat_map (fun gp =>
                   let '(g, (_, _, tr)) := gp in
                   match expect_raft g ops' a_init 0 with
                   | Some (_, t) =>
                       if tr =? t then []
                       else [if existsb (N.eqb g) (k_lost_group a ++ lost) then 4 else 0]
                   | None => []
                   end) (w_ptrs w) in
  let a1 := {| k_st := s'; k_ops := ops'; k_files := w_segs w;
               k_lost_group := k_lost_group a ++ lost; k_wd_lsm := wd;
               k_mis := k_mis a || mis1; k_vio := k_vio a ++ vio1 ++ vio_ptr |} in
  match w_probe w with
  | None => a1
  | Some p =>
      let (m2, v2) := eval_probe a1 s' ops' p in
      {| k_st := s'; k_ops := ops'; k_files := w_segs w; k_lost_group := k_lost_group a1;
         k_wd_lsm := wd; k_mis := k_mis a1 || m2; k_vio := k_vio a1 ++ v2 |}
  end.

Definition check (c : case) : verdict :=
  let a := fold_left eval_step (c_steps c)
             {| k_st := init (c_ids c) (c_active c); k_ops := []; k_files := c_ids c;
                k_lost_group := []; k_wd_lsm := false; k_mis := false; k_vio := [] |} in
  match k_vio a with
  | [] => mk_verdict (k_mis a) false 0
  | v :: vs => mk_verdict (k_mis a) true (if existsb (N.eqb 0) (v :: vs) then 0 else v)
  end.

(* compact constructors for the harness *)
Definition H := HS.
Definition Ob (h : hardstate) (si st fi la : N) (es : list (N * entry)) : obs :=
  {| o_hs := h; o_snapi := si; o_snapt := st; o_first := fi; o_last := la; o_ents := es |}.
Definition Pr (segs : list N) (kvs : list (N * option N)) (rs : list (N * res obs)) : probe :=
  {| pr_segs := segs; pr_kvs := kvs; pr_raft := rs |}.
Definition Ws (o : wop) (segs : list N) (ptrs : list (N * (N * N * N))) (p : option probe) : wstep :=
  {| w_op := o; w_out := None; w_segs := segs; w_ptrs := ptrs; w_probe := p |}.
Definition Wo (o : wop) (ok : bool) (segs : list N) (ptrs : list (N * (N * N * N))) (p : option probe) : wstep :=
  {| w_op := o; w_out := Some ok; w_segs := segs; w_ptrs := ptrs; w_probe := p |}.
Definition Cs (ids : list N) (active : N) (l : list wstep) : case :=
  {| c_ids := ids; c_active := active; c_steps := l |}.

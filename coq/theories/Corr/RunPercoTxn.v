(** Correspondence for C18 / C19: the cases of family "perco" (see
    [Corr/RunPerco.v]), judged on what these two properties talk about:
    transaction outcomes, lock reports and reads.  Scan responses are compared
    with the specification's scan over the keys that have a record, so the
    known scan/lock finding of C17 (C17-F1) is not re-reported here; every
    other response and every [reader.GetLock] is compared with the protocol
    specification. *)
From NoKV Require Export Corr.RunPerco.

Definition check (c : case) : verdict := check_gen false c.

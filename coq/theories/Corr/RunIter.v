(** Correspondence for C06 (family "iter").  The harness builds LSM states on a
    real DB (writes through the plain API and through transactions, deletes,
    expiring entries, rotations, gated flushes, chosen compactions, reopen),
    dumps the layout with every record, and then runs DB.NewIterator,
    Txn.NewIterator and Txn.NewKeyIterator under many option records, with
    Rewind or Seek, and Txn.Get on every key.  A case is the dumped state, the
    history of acknowledged writes, and the observed listings.

      mismatch   the model (Model/LsmIter.v, configuration [current]) lists
                 something else than the implementation did;
      violation  the observed listing differs from [spec_scan] of the history
                 (Spec/IterSpec.v) — independent of the model;
      known      class of a violation that the faithful model reproduces. *)
From Coq Require Export List NArith Bool String.
From NoKV Require Export Base.Bytes Model.Keys Model.Lsm Spec.MvccSpec Model.LsmIter Spec.IterSpec Corr.Common.
Export ListNotations.
Local Open Scope N_scope.

Inductive probe :=
| PDb (o : dopts) (a : action) (obs : list item)
| PTxn (readTs : N) (pw : list rec) (o : topts) (a : action) (obs : list item)
| PGets (readTs : N) (pw : list rec) (obs : list (bytes * option bytes))
(* the positioning operations (each followed by that many Next calls) performed on the
   same iterator BEFORE the probe's own positioning operation.  Seek and Rewind
   re-position every source and reset lastKey / seekOutOfRange, so the model of
   the final listing - like its specification - depends on the last one only. *)
| PSeq (pre : list (action * N)) (p : probe).

Record case := { c_now : N; c_st : state; c_ws : list rec; c_probes : list probe }.

Definition item_eqb (a b : item) : bool :=
  (i_cf a =? i_cf b) && bytes_eqb (i_key a) (i_key b) && (i_ver a =? i_ver b) && bytes_eqb (i_val a) (i_val b).
Fixpoint items_eqb (a b : list item) : bool :=
  match a, b with
  | [], [] => true
  | x :: a', y :: b' => item_eqb x y && items_eqb a' b'
  | _, _ => false
  end.

Definition to_sitem (i : item) : sitem := {| s_key := i_key i; s_ver := i_ver i; s_val := i_val i |}.
Definition all_default (l : list item) : bool := forallb (fun i => i_cf i =? cf_default) l.

Definition sopts_of_t (o : topts) (a : action) : sopts :=
  {| so_rev := o_rev o; so_all := o_all o; so_pik := o_pik o; so_prefix := o_prefix o; so_since := o_since o;
     so_lower := o_lower o; so_upper := o_upper o;
     so_target := match a with ASeek (b :: k) => Some (b :: k) | _ => None end |}.
Definition sopts_of_d (o : dopts) (a : action) : sopts :=
  {| so_rev := negb (d_asc o); so_all := false; so_pik := false; so_prefix := []; so_since := 0;
     so_lower := d_lower o; so_upper := d_upper o;
     so_target := match a with ASeek k => Some k | ARewind => None end |}.

(** * Known-finding classes *)

(** Keys whose part of the listing differs from the specification's. *)
Definition for_key (u : bytes) (l : list sitem) : list sitem := filter (fun i => bytes_eqb (s_key i) u) l.
Definition bad_keys (obs spec : list sitem) : list bytes :=
  filter (fun u => negb (sitems_eqb (for_key u obs) (for_key u spec))) (key_set (map s_key (obs ++ spec))).

(** class 1 (inherited, C01-F2): two tables of L0 or of one ingest buffer hold
    the same internal key of this base key. *)
Definition tbl_has (bk : bytes) (v : N) (t : table) : bool :=
  existsb (fun r => bytes_eqb (r_key r) bk && (r_ver r =? v)) (t_recs t).
Fixpoint dup_in (bk : bytes) (ts : list table) : bool :=
  match ts with
  | [] => false
  | t :: ts' =>
      existsb (fun r => bytes_eqb (r_key r) bk && existsb (tbl_has bk (r_ver r)) ts') (t_recs t)
      || dup_in bk ts'
  end.
Definition has_dup (s : state) (bk : bytes) : bool :=
  dup_in bk (st_l0 s) || existsb (fun lv => dup_in bk (List.concat (lv_shards lv))) (st_lvls s).

(** ... or the aftermath of that: a merge of such tables (compactBuildTables takes
    its sources in the same order and keeps the first copy) persisted the OLDER
    copy, so the state no longer holds the latest acknowledged write of an
    internal key, only an overwritten write of the same key and version (the
    ghost sequence numbers of the dumped records say which write each one is).
    Such a state is outside [content_ok], the hypothesis of every C06 theorem. *)
Definition lost_newest (s : state) (ws : list rec) (bk : bytes) : bool :=
  existsb (fun w =>
             bytes_eqb (r_key w) bk &&
             let cs := filter (fun x => bytes_eqb (r_key x) bk && (r_ver x =? r_ver w)) (contents s) in
             match cs with [] => false | _ => forallb (fun x => r_seq x <? r_seq w) cs end) ws.
Definition stale (s : state) (ws : list rec) (bk : bytes) : bool := has_dup s bk || lost_newest s ws bk.

(** class 2 (C06-F10): DB.NewIterator lists every column family and every
    version.  Outside the class: every record of the merged stream is in the
    default column family and no base key occurs twice. *)
Fixpoint no_repeat_key (l : list rec) : bool :=
  match l with
  | x :: ((y :: _) as l') => negb (bytes_eqb (r_key x) (r_key y)) && no_repeat_key l'
  | _ => true
  end.
Definition db_simple (s : state) : bool :=
  let st := db_stream current s false PRewind in
  forallb (fun r => fst (split_base (r_key r)) =? cf_default) st && no_repeat_key st.

(** class 3 (C06-F9): reverse scan without AllVersions of a key with two or
    more versions visible at readTs. *)
Definition multi_visible (s : state) (readTs : N) (pw : list rec) (u : bytes) : bool :=
  let bk := sbase u in
  Nat.leb 2 (List.length (filter (fun r => bytes_eqb (r_key r) bk) (txn_stream current s false readTs pw PRewind))).

(** * Per-probe verdicts: (mismatch, violation, class) *)

Definition classify_scan (s : state) (ws : list rec) (kind : N) (readTs : N) (pw : list rec) (rv allv : bool)
           (agree : bool) (obs : list item) (spec : list sitem) : N :=
  if negb agree then 0
  else
    let bad := bad_keys (map to_sitem obs) spec in
    let nonnil := match bad with [] => false | _ => true end in
    let f9 := (kind =? 1) && rv && negb allv in
    if nonnil && all_default obs && forallb (fun u => stale s ws (sbase u)) bad then 1
    else if (kind =? 0) && negb (db_simple s) then 2
    else if f9 && nonnil && all_default obs
            && forallb (fun u => stale s ws (sbase u) || multi_visible s readTs pw u) bad then 3
    else 0.

Fixpoint probe_verdict (now : N) (s : state) (ws : list rec) (p : probe) : bool * bool * N :=
  match p with
  | PSeq _ p' => probe_verdict now s ws p'
  | PDb o a obs =>
      let m := db_list current now s o a in
      let sp := spec_scan now ws [] max_u64 (sopts_of_d o a) in
      let agree := items_eqb m obs in
      let ok := all_default obs && sitems_eqb (map to_sitem obs) sp in
      (negb agree, negb ok, if ok then 0 else classify_scan s ws 0 max_u64 [] (negb (d_asc o)) false agree obs sp)
  | PTxn readTs pw o a obs =>
      let m := txn_list current now s readTs pw o a in
      let sp := spec_scan now ws pw readTs (sopts_of_t o a) in
      let agree := items_eqb m obs in
      let ok := all_default obs && sitems_eqb (map to_sitem obs) sp in
      (negb agree, negb ok, if ok then 0 else classify_scan s ws 1 readTs pw (o_rev o) (o_all o) agree obs sp)
  | PGets readTs pw obs =>
      let model u := txn_get current now s readTs pw (sbase u) in
      let oeq (a b : option bytes) := match a, b with
                                       | None, None => true
                                       | Some x, Some y => bytes_eqb x y
                                       | _, _ => false
                                       end in
      let agree := forallb (fun kv => oeq (model (fst kv)) (snd kv)) obs in
      let ok := forallb (fun kv => oeq (spec_get now ws pw readTs (fst kv)) (snd kv)) obs in
      let badkv := filter (fun kv => negb (oeq (spec_get now ws pw readTs (fst kv)) (snd kv))) obs in
      (negb agree, negb ok,
       if ok then 0
       else if agree && forallb (fun kv => stale s ws (sbase (fst kv))) badkv then 1
       else 0)
  end.

Definition check (c : case) : verdict :=
  let vs := map (probe_verdict (c_now c) (c_st c) (c_ws c)) (c_probes c) in
  let mis := existsb (fun v => fst (fst v)) vs in
  let viol := filter (fun v => snd (fst v)) vs in
  let unknown := existsb (fun v => snd v =? 0) viol in
  mk_verdict mis (match viol with [] => false | _ => true end)
             (if unknown then 0 else fold_left N.max (map snd viol) 0).

(** Per-probe detail for replays: index, mismatch, violation, class. *)
Definition detail (c : case) : list (bool * bool * N) :=
  map (probe_verdict (c_now c) (c_st c) (c_ws c)) (c_probes c).

(* compact constructors for the harness *)
Definition R (k : string) (ver : N) (v : string) (meta exp seq : N) : rec :=
  {| r_key := unhex k; r_ver := ver; r_val := unhex v; r_meta := meta; r_exp := exp; r_seq := seq |}.
Definition T (fid : N) (rs : list rec) : table := {| t_fid := fid; t_recs := rs |}.
Definition Lv (sh : list (list table)) (main : list table) : level := {| lv_shards := sh; lv_main := main |}.
Definition St (mem : list rec) (imms : list (N * list rec)) (l0 : list table) (lvls : list level) : state :=
  {| st_mem := mem; st_memid := 0; st_imms := imms; st_l0 := l0; st_lvls := lvls; st_maxfid := 0 |}.
Definition It (cf : N) (k : string) (ver : N) (v : string) : item :=
  {| i_cf := cf; i_key := unhex k; i_ver := ver; i_val := unhex v |}.
Definition Od (asc keyonly : bool) (lo hi : string) : dopts :=
  {| d_asc := asc; d_keyonly := keyonly; d_lower := unhex lo; d_upper := unhex hi |}.
Definition Ot (rv allv keyonly pik : bool) (prefix : string) (since : N) (lo hi : string) : topts :=
  {| o_rev := rv; o_all := allv; o_keyonly := keyonly; o_pik := pik; o_prefix := unhex prefix; o_since := since;
     o_lower := unhex lo; o_upper := unhex hi |}.
Definition Sk (k : string) : action := ASeek (unhex k).
Definition Pre (a : action) (n : N) : action * N := (a, n).
Definition Gk (k : string) (o : option string) : bytes * option bytes := (unhex k, option_map unhex o).
Definition Cs (now : N) (s : state) (ws : list rec) (ps : list probe) : case :=
  {| c_now := now; c_st := s; c_ws := ws; c_probes := ps |}.

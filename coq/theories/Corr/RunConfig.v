(** Correspondence for C38: the Go harness calls [config.File.Validate] and
    reports the error class; the model is [validate], the oracle is
    [well_formed_b] (proved to decide [well_formed]). *)
From Coq Require Export List NArith Bool String.
From NoKV Require Export Base.Bytes Model.Config Spec.ConfigSpec Corr.Common.
Export ListNotations.

(** [ObsOther]: an error class the model does not know (always a mismatch). *)
Inductive obs := ObsOk | ObsErr (e : err) | ObsOther.
Record case := { c_file : file; c_observed : obs }.

Definition err_eqb (a b : err) : bool :=
  match a, b with
  | ErrTmpl, ErrTmpl | ErrDockerTmpl, ErrDockerTmpl | ErrStoreZero, ErrStoreZero
  | ErrStoreDup, ErrStoreDup | ErrRegionZero, ErrRegionZero | ErrLeaderMissing, ErrLeaderMissing
  | ErrPeerZero, ErrPeerZero | ErrPeerUnknown, ErrPeerUnknown => true
  | _, _ => false
  end.

Definition oerr_eqb (a : option err) (b : obs) : bool :=
  match a, b with
  | None, ObsOk => true
  | Some x, ObsErr y => err_eqb x y
  | _, _ => false
  end.

Definition check (c : case) : verdict :=
  let accepted := match c_observed c with ObsOk => true | _ => false end in
  mk_verdict (negb (oerr_eqb (validate (c_file c)) (c_observed c)))
             (negb (Bool.eqb accepted (well_formed_b (c_file c))))
             0.

(* helpers so that the harness prints compact terms *)
Definition P (s i : N) : peer := {| p_store := s; p_id := i |}.
Definition R (i l : N) (ps : list peer) : region := {| r_id := i; r_leader := l; r_peers := ps |}.
Definition F (t d : string) (ss : list N) (rs : list region) : file :=
  {| f_tmpl := unhex t; f_dtmpl := unhex d; f_stores := ss; f_regions := rs |}.
Definition Cs (f : file) (o : obs) : case := {| c_file := f; c_observed := o |}.

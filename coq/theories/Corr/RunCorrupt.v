(** Correspondence for C14: every single-bit flip of a small WAL segment
    (wal.Manager.Replay, wal.VerifyDir) and of a value-log / WAL entry record
    (kv.DecodeEntryFrom, kv.DecodeValueSlice — the codec under vlog/io.go). *)
From Coq Require Export List NArith Bool String.
From NoKV Require Export Base.Bytes Base.Num Corr.Common Spec.CorruptSpec.
From NoKV Require Import Model.WalCodec Model.Wal Spec.WalSpec Corr.RunWal Corr.RunCodec.
Export ListNotations.
Local Open Scope N_scope.

Definition flat := RunCodec.flat.
Definition robs := RunWal.robs.
Definition H (s : string) : bytes := unhex s.

(** SST: what reading the flipped table file delivered *)
Definition sent := (bytes * bytes * N * N)%type.      (* internal key, value, meta, expiresAt *)
(** per built key: what Search returned *)
Inductive kobs := KFound (e : sent) | KNotFound | KErr.
(** the flipped table file: open error, fail-stop panic, or (Search of every built key, forward iteration) *)
Inductive tobs := TOpenErr | TPanic | TRead (per_key : list kobs) (iter : list sent) (block_error : bool).
    (* block_error: loading the blocks one by one (loadBlock) reported an error *)
Definition sent_eqb (a b : sent) : bool :=
  let '(k1, v1, m1, x1) := a in let '(k2, v2, m2, x2) := b in
  bytes_eqb k1 k2 && bytes_eqb v1 v2 && (m1 =? m2) && (x1 =? x2).

Inductive cobs := OPanic | OErr (class : N) | OVal (v : flat).
Definition to_codec (o : cobs) : RunCodec.cobs :=
  match o with OPanic => RunCodec.OPanic | OErr c => RunCodec.OErr c | OVal v => RunCodec.OVal v end.

Inductive case :=
| Cw (orig : bytes) (recs : list (N * bytes)) (bit : N) (obs : robs) (verr : N)
    (* segment 1 holds [orig] = the encoding of [recs]; bit flipped; Replay observation; VerifyDir error class *)
| Cv (k : N) (orig : bytes) (bit : N) (obs : cobs) (orig_val : flat)
| Ct (built : list (sent * N)) (bit : N) (obs : tobs).
    (* an SST file built by the code under test from [built] (entry, index of its block), one
       bit flipped, read through openTable / Search of every built key / iterator / loadBlock of
       every block.  No model of the table format here: oracle only.  Whatever is served must be
       byte-identical to a built entry; a built entry may be missing ("treated as not present":
       table.Search turns an unloadable block into ErrKeyNotFound) only if loadBlock reports an
       error, and then all missing entries lie in one block (one flipped bit damages one block). *)

Fixpoint keys_ok (built : list (sent * N)) (ks : list kobs) : bool :=
  match built, ks with
  | [], [] => true
  | b :: built', k :: ks' =>
      (match k with
       | KFound e => sent_eqb e (fst b)    (* served: must be the built entry, byte for byte *)
       | KErr | KNotFound => true          (* judged by [missing_ok] *)
       end) && keys_ok built' ks'
  | _, _ => false
  end.

Fixpoint missing_blocks (built : list (sent * N)) (ks : list kobs) : list N :=
  match built, ks with
  | b :: built', k :: ks' =>
      match k with
      | KFound _ => missing_blocks built' ks'
      | _ => snd b :: missing_blocks built' ks'
      end
  | _, _ => []
  end.

Definition missing_ok (built : list (sent * N)) (ks : list kobs) (block_error : bool) : bool :=
  match missing_blocks built ks with
  | [] => true
  | b :: rest => block_error && forallb (N.eqb b) rest
  end.

Definition rec_eqb (a b : rec) : bool := byte_eqb (fst a) (fst b) && bytes_eqb (snd a) (snd b).

Definition check (c : case) : verdict :=
  match c with
  | Cw orig recs bit obs verr =>
      let fl := flip_bit bit orig in
      let m := replay [(1, fl)] in
      let mv := RunWal.err_code (snd (verify_dir [(1, fl)])) in
      let mismatch := negb (RunWal.robs_eqb m obs && (mv =? verr)) in
      (* whatever is delivered is a prefix of what was written *)
      let violation := negb (is_prefix_of rec_eqb (RunWal.obs_recs obs) (map RunWal.to_rec recs)) in
      mk_verdict mismatch violation 0
  | Cv k orig bit obs orig_val =>
      let fl := flip_bit bit orig in
      let mismatch := negb (RunCodec.cobs_eqb (RunCodec.model_dec k fl) (to_codec obs)) in
      let violation :=
        match obs with
        | OPanic => true
        | OErr _ => false
        | OVal v => negb (RunCodec.flat_eqb v orig_val)
        end in
      mk_verdict mismatch violation 0
  | Ct built bit obs =>
      match obs with
      | TOpenErr => ok_verdict
      | TPanic => ok_verdict
          (* fail-stop: file/sstable_linux.go reports read errors of the footer by utils.Panic
             (readCheckError); nothing is served. Counted by the harness as sst_panic. *)
      | TRead ks iter berr =>
          mk_verdict false
            (negb (keys_ok built ks && missing_ok built ks berr
                   && forallb (fun e => existsb (fun b => sent_eqb e (fst b)) built) iter)) 0
      end
  end.

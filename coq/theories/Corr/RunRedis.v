(** Correspondence for C29: a TCP client sends a command sequence to the real
    gateway (embedded backend) and records the raw reply of every command.

    mismatch  = the replies of the model ([Model.Redis.run current], encoded by
                the model of the reply writers) differ from the observed bytes;
    violation = the replies of the reference semantics ([Spec.RedisSpec.spec_run])
                differ from the observed bytes;
    known class 1 = the sequence addresses the empty key (NoKV cannot store it). *)
From Coq Require Export List NArith ZArith Bool String.
From NoKV Require Export Base.Bytes Model.Resp Model.Redis Spec.RedisSpec Corr.Common.
Export ListNotations.
Local Open Scope N_scope.

Record case := { c_cmds : list (N * list bytes); c_replies : list bytes }.

Definition check (c : case) : verdict :=
  let mr := snd (run current [] (c_cmds c)) in
  mk_verdict (negb (replies_eqb (map encode_reply mr) (c_replies c)))
             (negb (conforms_b (c_cmds c) (c_replies c)))
             (if keys_nonempty (c_cmds c) then 0 else 1).

(* constructor helpers: printable byte strings as text, the rest as hex;
   [L]/[XL] append CR LF (reply lines). *)
Inductive seg := A (s : string) | X (s : string) | L (s : string) | XL (s : string).
Definition seg_bytes (g : seg) : bytes :=
  match g with
  | A s => of_string s
  | X s => unhex s
  | L s => of_string s ++ [CR; LF]
  | XL s => unhex s ++ [CR; LF]
  end.
Definition C (now : N) (args : list seg) : N * list bytes := (now, map seg_bytes args).
Definition Cs (cmds : list (N * list bytes)) (replies : list (list seg)) : case :=
  {| c_cmds := cmds; c_replies := map (fun r => List.concat (map seg_bytes r)) replies |}.

(* the case files print argument vectors as lists of hex string literals *)
Global Open Scope string_scope.

(** Correspondence for C29: a TCP client sends a command sequence to the real
    gateway (embedded backend) and records the raw reply of every command.

    mismatch  = the replies of the model ([Model.Redis.run current], encoded by
                the model of the reply writers) differ from the observed bytes;
    violation = the replies of the reference semantics ([Spec.RedisSpec.spec_run])
                differ from the observed bytes;
    known class 1 = the sequence addresses the empty key (NoKV cannot store it). *)
From Coq Require Export List NArith ZArith Bool String.
From NoKV Require Export Base.Bytes Model.Resp Model.Redis Spec.RedisSpec Spec.RedisMsSpec Corr.Common.
Export ListNotations.
Local Open Scope N_scope.

(** [c_cmds]: (clock in milliseconds when the command was sent, arguments). *)
Record case := { c_cmds : list (N * list bytes); c_replies : list bytes }.

(** mismatch  = the faithful model (store arithmetic: whole seconds, floor, PX
                bumped out of the current second), run on the seconds the
                millisecond clocks lie in, does not predict the observed replies;
    violation = the millisecond-precise reference (Spec/RedisMsSpec.v) does not;
    known 1   = the sequence addresses the empty key (C29-F1);
    known 2   = C29-F2: the model predicts the replies, and they agree with the
                reference once deadlines are moved by less than 1000 ms
                ([within_granularity]): a key treated as expired (or alive)
                within one second of its millisecond deadline. *)
Definition check (c : case) : verdict :=
  let secs := to_seconds (c_cmds c) in
  let mr := snd (run current [] secs) in
  let model_ok := replies_eqb (map encode_reply mr) (c_replies c) in
  let ref_ok := conforms_ms_b 0 (c_cmds c) (c_replies c) in
  mk_verdict (negb model_ok) (negb ref_ok)
             (if ref_ok then 0
              else if negb (keys_nonempty secs) then 1
              else if model_ok && within_granularity (c_cmds c) (c_replies c) then 2
              else 0).

(* constructor helpers: printable byte strings as text, the rest as hex;
   [L]/[XL] append CR LF (reply lines). *)
Inductive seg := A (s : string) | X (s : string) | L (s : string) | XL (s : string).
Definition seg_bytes (g : seg) : bytes :=
  match g with
  | A s => of_string s
  | X s => unhex s
  | L s => of_string s ++ [CR; LF]
  | XL s => unhex s ++ [CR; LF]
  end.
Definition C (now : N) (args : list seg) : N * list bytes := (now * 1000, map seg_bytes args).
Definition Cm (now_ms : N) (args : list seg) : N * list bytes := (now_ms, map seg_bytes args).
Definition Cs (cmds : list (N * list bytes)) (replies : list (list seg)) : case :=
  {| c_cmds := cmds; c_replies := map (fun r => List.concat (map seg_bytes r)) replies |}.

(* the case files print argument vectors as lists of hex string literals *)
Global Open Scope string_scope.

(** Correspondence for C13: real [wal.Manager] vs [Model/Wal.v].

    One case = (segment size, records appended to a fresh directory, the
    EntryInfos AppendRecords returned, an optional cut of the newest segment,
    what Replay delivered on the cut directory, records appended after
    VerifyDir + Open, their EntryInfos, what Replay delivered then). *)
From Coq Require Export List NArith Bool String.
From NoKV Require Export Base.Bytes Base.Num Model.WalCodec Model.Wal Spec.WalSpec Corr.Common.
Export ListNotations.
Local Open Scope N_scope.

(** payload literals: hex, or a pattern [Pat n s] = bytes (s+i) mod 256, i < n *)
Fixpoint pat_aux (n : nat) (s : N) : bytes :=
  match n with
  | O => []
  | S n' => n2b s :: pat_aux n' ((s + 1) mod 256)
  end.
Definition Pat (n s : N) : bytes := pat_aux (N.to_nat n) s.

(** observed replay: delivered (segment, offset, type, payload) and the error class
    0 = nil, 1 = checksum mismatch, 2 = empty record, 9 = anything else *)
Definition robs := (list (N * N * N * bytes) * N)%type.

Record case := {
  c_segsize : N;
  c_recs : list (N * bytes);
  c_infos : list (N * N);
  c_cut : option N;
  c_obs1 : robs;
  c_recs2 : list (N * bytes);
  c_infos2 : list (N * N);
  c_obs2 : robs
}.

Definition to_rec (r : N * bytes) : rec := (n2b (fst r), snd r).

Definition err_code (e : option rerr) : N :=
  match e with
  | None => 0
  | Some RErrCrc => 1
  | Some RErrEmpty => 2
  | Some RErrFuel => 99
  end.

Definition rinfo_eqb (a : rinfo) (b : N * N * N * bytes) : bool :=
  let '(s, o, t, p) := b in
  (i_seg a =? s) && (i_off a =? o) && (b2n (i_ty a) =? t) && bytes_eqb (i_payload a) p.

Fixpoint all2 {A B} (f : A -> B -> bool) (a : list A) (b : list B) : bool :=
  match a, b with
  | [], [] => true
  | x :: a', y :: b' => f x y && all2 f a' b'
  | _, _ => false
  end.

Definition robs_eqb (m : list rinfo * option rerr) (o : robs) : bool :=
  all2 rinfo_eqb (fst m) (fst o) && (err_code (snd m) =? snd o).

Definition info_eqb (a b : N * N) : bool := (fst a =? fst b) && (snd a =? snd b).

Definition obs_recs (o : robs) : list rec :=
  map (fun x => let '(_, _, t, p) := x in (n2b t, p)) (fst o).

Definition last_seg_id (infos : list (N * N)) : N := fst (last infos (1, 0)).

Definition check (c : case) : verdict :=
  let rs := map to_rec (c_recs c) in
  let rs2 := map to_rec (c_recs2 c) in
  (* model *)
  let (w1, infos1) := append_all (open_wal (c_segsize c) []) rs in
  let fs1 := match c_cut c with Some k => cut_last k (files w1) | None => files w1 end in
  let m1 := replay fs1 in
  let (fs2, verr) := verify_dir fs1 in
  let (w2, infos2) := append_all (open_wal (c_segsize c) fs2) rs2 in
  let m2 := replay (files w2) in
  let mismatch :=
    negb (all2 info_eqb infos1 (c_infos c) && robs_eqb m1 (c_obs1 c)
          && (err_code verr =? 0)
          && all2 info_eqb infos2 (c_infos2 c) && robs_eqb m2 (c_obs2 c)) in
  (* specification, from the observed placements only *)
  let lastseg := last_seg_id (c_infos c) in
  let expect1 := match c_cut c with
                 | Some k => survivors_b lastseg k rs (c_infos c)
                 | None => rs
                 end in
  let violation :=
    negb (recs_eqb (obs_recs (c_obs1 c)) expect1 && (snd (c_obs1 c) =? 0)
          && recs_eqb (obs_recs (c_obs2 c)) (expect1 ++ rs2) && (snd (c_obs2 c) =? 0)) in
  mk_verdict mismatch violation 0.

(* compact constructors for the harness *)
Definition H (s : string) : bytes := unhex s.
Definition Cs (seg : N) (rs : list (N * bytes)) (is : list (N * N)) (cut : option N)
  (o1 : robs) (rs2 : list (N * bytes)) (is2 : list (N * N)) (o2 : robs) : case :=
  {| c_segsize := seg; c_recs := rs; c_infos := is; c_cut := cut; c_obs1 := o1;
     c_recs2 := rs2; c_infos2 := is2; c_obs2 := o2 |}.

(** Correspondence for C13: real [wal.Manager] vs [Model/Wal.v].

    One case = (segment size, records appended to a fresh directory, the
    EntryInfos AppendRecords returned, an optional cut of the newest segment,
    what Replay delivered on the cut directory, records appended after
    VerifyDir + Open, their EntryInfos, what Replay delivered then). *)
From Coq Require Export List NArith Bool String.
From NoKV Require Export Base.Bytes Base.Num Model.WalCodec Model.Wal Spec.WalSpec Corr.Common.
Export ListNotations.
Local Open Scope N_scope.

(** payload literals: hex, or a pattern [Pat n s] = bytes (s+i) mod 256, i < n *)
Fixpoint pat_aux (n : nat) (s : N) : bytes :=
  match n with
  | O => []
  | S n' => n2b s :: pat_aux n' ((s + 1) mod 256)
  end.
Definition Pat (n s : N) : bytes := pat_aux (N.to_nat n) s.

(** observed replay: delivered (segment, offset, type, payload) and the error class
    0 = nil, 1 = checksum mismatch, 2 = empty record, 9 = anything else *)
Definition robs := (list (N * N * N * bytes) * N)%type.

Record fcase := {
  c_segsize : N;
  c_recs : list (N * bytes);
  c_infos : list (N * N);
  c_cut : option N;
  c_obs1 : robs;
  c_recs2 : list (N * bytes);
  c_infos2 : list (N * N);
  c_obs2 : robs
}.

Definition to_rec (r : N * bytes) : rec := (n2b (fst r), snd r).

Definition err_code (e : option rerr) : N :=
  match e with
  | None => 0
  | Some RErrCrc => 1
  | Some RErrEmpty => 2
  | Some RErrFuel => 99
  end.

Definition rinfo_eqb (a : rinfo) (b : N * N * N * bytes) : bool :=
  let '(s, o, t, p) := b in
  (i_seg a =? s) && (i_off a =? o) && (b2n (i_ty a) =? t) && bytes_eqb (i_payload a) p.

Fixpoint all2 {A B} (f : A -> B -> bool) (a : list A) (b : list B) : bool :=
  match a, b with
  | [], [] => true
  | x :: a', y :: b' => f x y && all2 f a' b'
  | _, _ => false
  end.

Definition robs_eqb (m : list rinfo * option rerr) (o : robs) : bool :=
  all2 rinfo_eqb (fst m) (fst o) && (err_code (snd m) =? snd o).

Definition info_eqb (a b : N * N) : bool := (fst a =? fst b) && (snd a =? snd b).

Definition obs_recs (o : robs) : list rec :=
  map (fun x => let '(_, _, t, p) := x in (n2b t, p)) (fst o).

Definition last_seg_id (infos : list (N * N)) : N := fst (last infos (1, 0)).

Definition check_full (c : fcase) : verdict :=
  let rs := map to_rec (c_recs c) in
  let rs2 := map to_rec (c_recs2 c) in
  (* model *)
  let (w1, infos1) := append_all (open_wal (c_segsize c) []) rs in
  let fs1 := match c_cut c with Some k => cut_last k (files w1) | None => files w1 end in
  let m1 := replay fs1 in
  let (fs2, verr) := verify_dir fs1 in
  let (w2, infos2) := append_all (open_wal (c_segsize c) fs2) rs2 in
  let m2 := replay (files w2) in
  let mismatch :=
    negb (all2 info_eqb infos1 (c_infos c) && robs_eqb m1 (c_obs1 c)
          && (err_code verr =? 0)
          && all2 info_eqb infos2 (c_infos2 c) && robs_eqb m2 (c_obs2 c)) in
  (* specification, from the observed placements only *)
  let lastseg := last_seg_id (c_infos c) in
  let expect1 := match c_cut c with
                 | Some k => survivors_b lastseg k rs (c_infos c)
                 | None => rs
                 end in
  let violation :=
    negb (recs_eqb (obs_recs (c_obs1 c)) expect1 && (snd (c_obs1 c) =? 0)
          && recs_eqb (obs_recs (c_obs2 c)) (expect1 ++ rs2) && (snd (c_obs2 c) =? 0)) in
  mk_verdict mismatch violation 0.

(** ** Records too large to carry as literals (1 MiB .. above 64 MiB)

    Payloads are symbolic: [PP n s] stands for [Pat n s] and is never expanded; the
    harness prints a delivered payload as [PP n s] only after comparing all of its bytes
    with the pattern.  The model's prediction needs no evaluation on the bytes: by
    C13_replay_all / C13_reopen_appends replay delivers exactly the appended records at the
    positions AppendRecords returned, and by C13_placement_by_length those positions are
    [place] of the payload lengths. *)
Inductive pl := PH (b : bytes) | PP (n s : N).

Definition pl_len (p : pl) : N := match p with PH b => blen b | PP n _ => n end.
Definition pl_eqb (a b : pl) : bool :=
  match a, b with
  | PH x, PH y => bytes_eqb x y
  | PP n s, PP n' s' => (n =? n') && (s =? s')   (* the harness prints a non-pattern payload with s >= 256 *)
  | _, _ => false
  end.

Definition bobs := (list (N * N * N * pl) * N)%type.

Record bcase := {
  b_segsize : N;
  b_recs : list (N * pl);
  b_infos : list (N * N);
  b_obs1 : bobs;             (* Replay after Close *)
  b_verr : N;                (* VerifyDir error class *)
  b_recs2 : list (N * pl);
  b_infos2 : list (N * N);
  b_obs2 : bobs              (* Replay after VerifyDir + Open + AppendRecords *)
}.

Definition delivered_eqb (infos : list (N * N)) (rs : list (N * pl)) (o : bobs) : bool :=
  (snd o =? 0) &&
  all2 (fun (ir : (N * N) * (N * pl)) (x : N * N * N * pl) =>
          let '(s, off, t, p) := x in
          (fst (fst ir) =? s) && (snd (fst ir) =? off) && (fst (snd ir) mod 256 =? t) && pl_eqb (snd (snd ir)) p)
       (combine infos rs) (fst o).

Definition recs_only_eqb (rs : list (N * pl)) (o : bobs) : bool :=
  (snd o =? 0) &&
  all2 (fun (r : N * pl) (x : N * N * N * pl) =>
          let '(_, _, t, p) := x in (fst r mod 256 =? t) && pl_eqb (snd r) p) rs (fst o).

Definition check_big (c : bcase) : verdict :=
  let seg := eff_segsize (b_segsize c) in
  let '(i1, (id1, sz1)) := place seg 1 0 (map (fun r => pl_len (snd r)) (b_recs c)) in
  let '(i2, _) := place seg id1 sz1 (map (fun r => pl_len (snd r)) (b_recs2 c)) in
  let mismatch :=
    negb (all2 info_eqb i1 (b_infos c) && delivered_eqb i1 (b_recs c) (b_obs1 c) && (b_verr c =? 0)
          && all2 info_eqb i2 (b_infos2 c)
          && delivered_eqb (i1 ++ i2) (b_recs c ++ b_recs2 c) (b_obs2 c)) in
  (* the specification: replay yields exactly the appended records, in order, with their types *)
  let violation :=
    negb (recs_only_eqb (b_recs c) (b_obs1 c) && (b_verr c =? 0)
          && recs_only_eqb (b_recs c ++ b_recs2 c) (b_obs2 c)) in
  mk_verdict mismatch violation 0.

Inductive case := CF (f : fcase) | CB (b : bcase).
Definition check (c : case) : verdict :=
  match c with CF f => check_full f | CB b => check_big b end.

(* compact constructors for the harness *)
Definition H (s : string) : bytes := unhex s.
Definition Cs (seg : N) (rs : list (N * bytes)) (is : list (N * N)) (cut : option N)
  (o1 : robs) (rs2 : list (N * bytes)) (is2 : list (N * N)) (o2 : robs) : case :=
  CF {| c_segsize := seg; c_recs := rs; c_infos := is; c_cut := cut; c_obs1 := o1;
        c_recs2 := rs2; c_infos2 := is2; c_obs2 := o2 |}.
Definition Cb (seg : N) (rs : list (N * pl)) (is : list (N * N)) (o1 : bobs) (verr : N)
  (rs2 : list (N * pl)) (is2 : list (N * N)) (o2 : bobs) : case :=
  CB {| b_segsize := seg; b_recs := rs; b_infos := is; b_obs1 := o1; b_verr := verr;
        b_recs2 := rs2; b_infos2 := is2; b_obs2 := o2 |}.

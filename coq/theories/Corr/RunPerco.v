(** Correspondence for C17 / C18 / C19 (family "perco"): the harness applies a
    request sequence through [raftstore/kv.Apply] to a real DB and reports,
    per step, the canonicalised response and [reader.GetLock] of every key of
    the case.  [mismatch]: the model ([Model/KvApply.v], working-tree code
    [current]) answers differently.  [violation]: the protocol specification
    ([Spec/PercoSpec.v]: [lstep] / [lget] / [lscan]) answers differently, i.e.
    the observed behaviour is not the one the properties demand.
    Known class 1 (C17-F1): the only differences are scans that did not report
    the lock of a key that has no write record yet. *)
From Coq Require Export List NArith Bool String.
From NoKV Require Export Base.Bytes Model.Percolator Model.KvApply Model.PercolatorFault Spec.PercoSpec Corr.Common.
Export ListNotations.
(* string literals of the cases files (hex) are read in [string_scope]; exported on purpose *)
Open Scope string_scope.
Local Open Scope N_scope.

(** [ObsOther]: a response the model has no class for (always a mismatch) *)
Inductive obs := Obs (p : response) | ObsOther.

(** [st_check_locks = false]: the locks after this step were not observed (first request of a race) *)
Record step := { st_req : request; st_obs : obs; st_locks : list (option lockrec); st_check_locks : bool }.

(** A case is a request sequence, or a *race*: after [r_setup], two requests
    were executed concurrently (one was started while the other held the key
    latch), then [r_tail].  Commands on a key are serialised by the latch, so
    the observation must be explained by one of the two serial orders. *)
Record seqcase := { c_keys : list bytes; c_steps : list step }.
Record racecase := {
  r_keys : list bytes; r_setup : list step;
  r_a : request; r_oa : obs; r_b : request; r_ob : obs;
  r_locks : list (option lockrec);          (* reader.GetLock of every key after both finished *)
  r_tail : list step }.
(** A *fault* case: every request runs with a hot-key write limit (0 = none), so DB writes inside a
    protocol step can be refused and leave a prefix of the step's writes.  Per step and key the
    harness also reports, for the transaction under test, [reader.GetWriteByStartTs] (kind and
    commit ts) and [reader.GetValue] at its commit version. *)
Record fstep := {
  fs_limit : N; fs_req : request; fs_obs : obs; fs_locks : list (option lockrec);
  fs_status : list (option (op * N) * option bytes) }.
Record faultcase := { f_keys : list bytes; f_start : N; f_commit : N; f_steps : list fstep }.
Inductive case := CSeq (c : seqcase) | CRace (c : racecase) | CFault (c : faultcase).

(** ** decidable equalities *)
Definition option_eqb {A} (f : A -> A -> bool) (a b : option A) : bool :=
  match a, b with
  | None, None => true
  | Some x, Some y => f x y
  | _, _ => false
  end.
Fixpoint list_eqb {A} (f : A -> A -> bool) (a b : list A) : bool :=
  match a, b with
  | [], [] => true
  | x :: a', y :: b' => f x y && list_eqb f a' b'
  | _, _ => false
  end.
Definition lockrec_eqb (a b : lockrec) : bool :=
  bytes_eqb (l_primary a) (l_primary b) && (l_ts a =? l_ts b) && (l_ttl a =? l_ttl b) &&
  op_eqb (l_kind a) (l_kind b) && (l_min_commit a =? l_min_commit b).
Definition abort_eqb (a b : abort) : bool :=
  match a, b with
  | AbUnsupportedOp, AbUnsupportedOp | AbLockNotFound, AbLockNotFound
  | AbRolledBack, AbRolledBack | AbEmptyKey, AbEmptyKey => true
  | _, _ => false
  end.
Definition key_error_eqb (a b : key_error) : bool :=
  match a, b with
  | KELocked k l, KELocked k' l' => bytes_eqb k k' && lockrec_eqb l l'
  | KEConflict k p a1 a2 a3, KEConflict k' p' b1 b2 b3 =>
      bytes_eqb k k' && bytes_eqb p p' && (a1 =? b1) && (a2 =? b2) && (a3 =? b3)
  | KEAbort x, KEAbort y => abort_eqb x y
  | KECommitTsExpired k c m, KECommitTsExpired k' c' m' => bytes_eqb k k' && (c =? c') && (m =? m')
  | KERetryable, KERetryable => true
  | _, _ => false
  end.
Definition action_eqb (a b : action) : bool :=
  match a, b with
  | ActNone, ActNone | ActTTLExpireRollback, ActTTLExpireRollback
  | ActLockNotExistRollback, ActLockNotExistRollback | ActMinCommitPushed, ActMinCommitPushed => true
  | _, _ => false
  end.
Definition check_result_eqb (a b : check_result) : bool :=
  option_eqb key_error_eqb (cr_error a) (cr_error b) && action_eqb (cr_action a) (cr_action b) &&
  (cr_ttl a =? cr_ttl b) && (cr_commit a =? cr_commit b).
Definition get_result_eqb (a b : get_result) : bool :=
  match a, b with
  | GValue v, GValue v' => bytes_eqb v v'
  | GNotFound, GNotFound => true
  | GLocked k l, GLocked k' l' => bytes_eqb k k' && lockrec_eqb l l'
  | _, _ => false
  end.
Definition kv_eqb (a b : bytes * bytes) : bool := bytes_eqb (fst a) (fst b) && bytes_eqb (snd a) (snd b).
Definition response_eqb (a b : response) : bool :=
  match a, b with
  | PPrewrite e, PPrewrite e' => list_eqb key_error_eqb e e'
  | PCommit e, PCommit e' => option_eqb key_error_eqb e e'
  | PRollback e, PRollback e' => option_eqb key_error_eqb e e'
  | PResolve n e, PResolve n' e' => (n =? n') && option_eqb key_error_eqb e e'
  | PCheck r, PCheck r' => check_result_eqb r r'
  | PGet r, PGet r' => get_result_eqb r r'
  | PScan kvs e, PScan kvs' e' => list_eqb kv_eqb kvs kvs' && option_eqb key_error_eqb e e'
  | _, _ => false
  end.
Definition obs_is (o : obs) (p : response) : bool :=
  match o with Obs q => response_eqb p q | ObsOther => false end.
Definition locks_eqb (a b : list (option lockrec)) : bool := list_eqb (option_eqb lockrec_eqb) a b.

(** ** model against observation *)
Fixpoint model_ok (c : cfg) (keys : list bytes) (s : store) (sts : list step) : bool :=
  match sts with
  | [] => true
  | st :: sts' =>
      let '(s1, p) := apply_req c s (st_req st) in
      obs_is (st_obs st) p && (negb (st_check_locks st) || locks_eqb (map (get_lock s1) keys) (st_locks st)) &&
      model_ok c keys s1 sts'
  end.

(** ** specification against observation *)
Definition llock_rec (a : lstate) (k : bytes) : option lockrec := option_map ll_rec (ks_lock (ls_at a k)).

(** [strict = true]: the specification; [strict = false]: the specification with blind scans *)
Fixpoint spec_ok (strict : bool) (keys : list bytes) (a : lstate) (sts : list step) : bool :=
  match sts with
  | [] => true
  | st :: sts' =>
      let '(a1, p) := lstep a (st_req st) in
      let p' := match st_req st with
                | RScan sk inc lim v =>
                    if strict then p else let '(kvs, e) := lscan_blind a sk inc lim v in PScan kvs e
                | _ => p
                end in
      obs_is (st_obs st) p' && (negb (st_check_locks st) || locks_eqb (map (llock_rec a1) keys) (st_locks st)) &&
      spec_ok strict keys a1 sts'
  end.

Definition req_ok_all (sts : list step) : bool := forallb (fun st => req_ok (st_req st)) sts.

(** the two serial explanations of a race *)
Definition race_orders (c : racecase) : list (list step) :=
  let mk x ox y oy :=
    (r_setup c ++
     [{| st_req := x; st_obs := ox; st_locks := []; st_check_locks := false |};
      {| st_req := y; st_obs := oy; st_locks := r_locks c; st_check_locks := true |}] ++ r_tail c)%list in
  [mk (r_a c) (r_oa c) (r_b c) (r_ob c); mk (r_b c) (r_ob c) (r_a c) (r_oa c)].

(** history-only oracle of C19: once a Commit / Resolve-commit of transaction [s] on [k] was
    acknowledged, [k] must not report a lock of [s] after both requests finished *)
Definition commit_acked (r : request) (o : obs) : list (bytes * N) :=
  match r, o with
  | RCommit ks s _, Obs (PCommit None) => map (fun k => (k, s)) ks
  | _, _ => []
  end.
Definition lock_reappeared (c : racecase) : bool :=
  existsb (fun '(k, s) =>
             existsb (fun '(k', l) => bytes_eqb k k' && match l with Some l0 => l_ts l0 =? s | None => false end)
                     (combine (r_keys c) (r_locks c)))
          (commit_acked (r_a c) (r_oa c) ++ commit_acked (r_b c) (r_ob c))%list.

(** the fault-aware model against the observation *)
Definition status_eqb (a b : option (op * N) * option bytes) : bool :=
  option_eqb (fun x y => op_eqb (fst x) (fst y) && (snd x =? snd y)) (fst a) (fst b) &&
  option_eqb bytes_eqb (snd a) (snd b).
Definition model_status (s : store) (start cv : N) (k : bytes) : option (op * N) * option bytes :=
  (match get_write_by_start_ts s k start with Some (w, ct) => Some (w_kind w, ct) | None => None end,
   get_value current s k cv).
Fixpoint fault_model_ok (keys : list bytes) (start cv : N) (fs : fstore) (sts : list fstep) : bool :=
  match sts with
  | [] => true
  | st :: sts' =>
      let '(fs1, p) := apply_req_f (fs_limit st) fs (fs_req st) in
      obs_is (fs_obs st) p && locks_eqb (map (get_lock (f_s fs1)) keys) (fs_locks st) &&
      list_eqb status_eqb (map (model_status (f_s fs1) start cv) keys) (fs_status st) &&
      fault_model_ok keys start cv fs1 sts'
  end.

(** history-only oracle (C18, finality under faults): once a key shows the transaction committed
    (a non-rollback record), every later observation shows the same record and, for a put, the
    value it had at its commit version; once it shows a rollback record it keeps showing it *)
Fixpoint final_ok (prev : list (option (op * N) * option bytes)) (sts : list fstep) : bool :=
  match sts with
  | [] => true
  | st :: sts' =>
      forallb (fun '(p, q) =>
                 match fst p with
                 | None => true
                 | Some (kind, ts) =>
                     option_eqb (fun x y => op_eqb (fst x) (fst y) && (snd x =? snd y)) (Some (kind, ts)) (fst q) &&
                     match kind with
                     | OpPut => option_eqb bytes_eqb (snd p) (snd q) && match snd q with Some _ => true | None => false end
                     | _ => true
                     end
                 end)
              (combine prev (fs_status st)) &&
      final_ok (fs_status st) sts'
  end.

(** history-only oracle, part 2 (C19 / C18 after an interrupted commit): for the transaction under
    test, whenever a key shows its commit record (non-rollback) after a step,
    - if that step was an acknowledged Commit / Resolve-commit naming the key, or a CheckTxnStatus on
      that key answered without error, the key must not report the transaction's lock any more;
    - a CheckTxnStatus on that key never answers with a rollback action. *)
Definition names_key (r : request) (k : bytes) (s : N) : bool :=
  match r with
  | RCommit ks s' _ => (s' =? s) && existsb (bytes_eqb k) ks
  | RResolve ks s' cv => (s' =? s) && negb (cv =? 0) && existsb (bytes_eqb k) ks
  | RCheck p s' _ _ _ => (s' =? s) && bytes_eqb k p
  | _ => false
  end.
Definition acked (o : obs) : bool :=
  match o with
  | Obs (PCommit None) | Obs (PResolve _ None) => true
  | Obs (PCheck cr) => match cr_error cr with None => true | Some _ => false end
  | _ => false
  end.
Definition reports_rollback (o : obs) : bool :=
  match o with
  | Obs (PCheck cr) =>
      match cr_action cr with ActTTLExpireRollback | ActLockNotExistRollback => true | _ => false end
  | _ => false
  end.
Definition stale_ok (keys : list bytes) (s : N) (st : fstep) : bool :=
  forallb (fun '(k, (l, stt)) =>
             match fst stt with
             | Some (kind, _) =>
                 if op_eqb kind OpRollback then true
                 else if names_key (fs_req st) k s then
                   negb (match fs_req st with RCheck _ _ _ _ _ => reports_rollback (fs_obs st) | _ => false end) &&
                   (negb (acked (fs_obs st)) ||
                    match l with Some l0 => negb (l_ts l0 =? s) | None => true end)
                 else true
             | None => true
             end)
          (combine keys (combine (fs_locks st) (fs_status st))).

Definition check_gen (strict : bool) (c : case) : verdict :=
  match c with
  | CSeq c =>
      let m := negb (model_ok current (c_keys c) empty_store (c_steps c)) in
      let v := negb (spec_ok strict (c_keys c) lempty (c_steps c)) in
      let k := if strict && v && spec_ok false (c_keys c) lempty (c_steps c) then 1 else 0 in
      mk_verdict m v k
  | CRace c =>
      let m := negb (existsb (model_ok current (r_keys c) empty_store) (race_orders c)) in
      let v := negb (existsb (spec_ok false (r_keys c) lempty) (race_orders c)) || lock_reappeared c in
      mk_verdict m v 0
  | CFault c =>
      let m := negb (fault_model_ok (f_keys c) (f_start c) (f_commit c) fempty (f_steps c)) in
      let v := negb (final_ok (map (fun _ => (None, None)) (f_keys c)) (f_steps c) &&
                     forallb (stale_ok (f_keys c) (f_start c)) (f_steps c)) in
      mk_verdict m v 0
  end.

Definition check (c : case) : verdict := check_gen true c.

(** ** constructor helpers: the harness prints byte strings as hex literals *)
Definition B (s : string) : bytes := unhex s.
Definition Mu (o : op) (k v : string) : mutation := {| m_op := o; m_key := B k; m_val := B v |}.
Definition Lk (p : string) (ts ttl : N) (kind : op) (mc : N) : lockrec :=
  {| l_primary := B p; l_ts := ts; l_ttl := ttl; l_kind := kind; l_min_commit := mc |}.
Definition QPw (ms : list mutation) (p : string) (s ttl mc : N) := RPrewrite ms (B p) s ttl mc.
Definition QCm (ks : list string) (s c : N) := RCommit (map B ks) s c.
Definition QRb (ks : list string) (s : N) := RRollback (map B ks) s.
Definition QRs (ks : list string) (s c : N) := RResolve (map B ks) s c.
Definition QCk (p : string) (l c cs : N) (rb : bool) := RCheck (B p) l c cs rb.
Definition QGet (k : string) (v : N) := RGet (B k) v.
Definition QScan (k : string) (inc : bool) (lim v : N) := RScan (B k) inc lim v.
Definition ELocked (k : string) (l : lockrec) := KELocked (B k) l.
Definition EConf (k p : string) (a b c : N) := KEConflict (B k) (B p) a b c.
Definition EExp (k : string) (c m : N) := KECommitTsExpired (B k) c m.
Definition ACk (e : option key_error) (a : action) (ttl cv : N) :=
  Obs (PCheck {| cr_error := e; cr_action := a; cr_ttl := ttl; cr_commit := cv |}).
Definition AVal (v : string) := Obs (PGet (GValue (B v))).
Definition ANotFound := Obs (PGet GNotFound).
Definition AGLocked (k : string) (l : lockrec) := Obs (PGet (GLocked (B k) l)).
Definition AScan (kvs : list (string * string)) (e : option key_error) :=
  Obs (PScan (map (fun '(k, v) => (B k, B v)) kvs) e).
Definition St (r : request) (o : obs) (ls : list (option lockrec)) : step :=
  {| st_req := r; st_obs := o; st_locks := ls; st_check_locks := true |}.
Definition Cs (ks : list string) (sts : list step) : case := CSeq {| c_keys := map B ks; c_steps := sts |}.
Definition Fs (limit : N) (r : request) (o : obs) (ls : list (option lockrec))
           (stt : list (option (op * N) * option string)) : fstep :=
  {| fs_limit := limit; fs_req := r; fs_obs := o; fs_locks := ls;
     fs_status := map (fun '(w, v) => (w, option_map B v)) stt |}.
Definition Fc (ks : list string) (start cv : N) (sts : list fstep) : case :=
  CFault {| f_keys := map B ks; f_start := start; f_commit := cv; f_steps := sts |}.
Definition Rc (ks : list string) (setup : list step) (a : request) (oa : obs) (b : request) (ob : obs)
           (ls : list (option lockrec)) (tail : list step) : case :=
  CRace {| r_keys := map B ks; r_setup := setup; r_a := a; r_oa := oa; r_b := b; r_ob := ob;
           r_locks := ls; r_tail := tail |}.

(** Shared plumbing of the correspondence files ([cases_*.v]).

    Every family defines [case] and [check : case -> verdict].  A verdict says
    whether the model's output differs from the implementation's observed
    output ([v_mismatch]), whether the observed output contradicts the abstract
    specification ([v_violation]), and, for a violation, the id of the
    known-finding class it belongs to ([v_known], 0 = none). *)
From Coq Require Import List NArith Bool.
Import ListNotations.
Local Open Scope N_scope.

Record verdict := { v_mismatch : bool; v_violation : bool; v_known : N }.

Definition ok_verdict : verdict := {| v_mismatch := false; v_violation := false; v_known := 0 |}.
Definition mk_verdict (m v : bool) (k : N) := {| v_mismatch := m; v_violation := v; v_known := k |}.

Section Run.
  Context {C : Type} (check : C -> verdict).

  Fixpoint collect (f : verdict -> bool) (i : N) (cs : list C) : list N :=
    match cs with
    | [] => []
    | c :: cs' => if f (check c) then i :: collect f (i + 1) cs' else collect f (i + 1) cs'
    end.

  Definition mismatches (cs : list C) : list N := collect v_mismatch 0 cs.
  Definition violations (cs : list C) : list N :=
    collect (fun v => v_violation v && (v_known v =? 0)) 0 cs.
  Fixpoint known_at (i : N) (cs : list C) : list (N * N) :=
    match cs with
    | [] => []
    | c :: cs' =>
        let v := check c in
        if v_violation v && negb (v_known v =? 0) then (i, v_known v) :: known_at (i + 1) cs'
        else known_at (i + 1) cs'
    end.
  Definition known (cs : list C) : list (N * N) := known_at 0 cs.
End Run.

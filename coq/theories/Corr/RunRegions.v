(** Correspondence for C24: the harness builds a real raftstore Store over a
    real manifest, sets up a partition with Store.UpdateRegion, applies split
    and merge admin commands through handleAdminCommand (VerifApplyAdmin),
    removals and state changes through the public API, lists the catalog
    after every step and finally reopens the manifest.  Each step is compared
    with Model/Regions.v; the oracles of Spec/RegionsSpec.v judge the observed
    listings only. *)
From Coq Require Export List NArith Bool String.
From NoKV Require Export Base.Bytes Model.Pd Spec.PdSpec Model.Regions Spec.RegionsSpec Corr.Common.
Export ListNotations.
Local Open Scope N_scope.

(** one step: the operation, whether it succeeded, the listing afterwards *)
Record obs_step := { o_op : op; o_ok : bool; o_after : list rmeta }.
Record case := { c_steps : list obs_step; c_reloaded : list rmeta }.

Definition is_admin (o : op) : bool :=
  match o with OpSplit _ _ _ | OpMerge _ _ => true | _ => false end.

(** the child of a split as the store normalises it *)
Definition op_split_wf_b (before : rcatalog) (o : op) : bool :=
  match o with
  | OpSplit p _ ch =>
      match rfind (rid ch) before, rfind p before with
      | None, Some pm => bytes_eqb (g_end (r_reg ch)) (g_end (r_reg pm))
      | None, None => true
      | Some _, _ => false
      end
  | _ => true
  end.

(** states only move forward, step by step, for regions present before and after *)
Definition states_forward_b (c c' : rcatalog) : bool :=
  forallb (fun m' => match rfind (rid m') c with
                     | Some m => forward_b (r_state m) (r_state m')
                     | None => true
                     end) c'.

Definition removal_ok_b (before after : rcatalog) (id : N) : bool :=
  listing_eqb (listing (rremove id before)) (listing after).

Definition step_violation (before : rcatalog) (st : obs_step) : bool :=
  let after := o_after st in
  negb (states_forward_b before after)
  || (if o_ok st then
        match o_op st with
        | OpSplit _ _ _ | OpMerge _ _ =>
            partition_b before && op_split_wf_b before (o_op st)
            && negb (partition_b after && same_cover_b before after && epochs_grow_b before after)
        | OpRemove id => negb (removal_ok_b before after id)
        | _ => false
        end
      else
        (* a failed admin command or removal leaves the catalog as it was *)
        match o_op st with
        | OpMerge _ _ | OpRemove _ => negb (listing_eqb (listing before) (listing after))
        (* a split that fails because its child cannot be hosted here keeps the partition and what it covers *)
        | OpSplitUnhosted _ _ _ => partition_b before && negb (partition_b after && same_cover_b before after)
        | _ => false
        end).

Fixpoint walk (s : store) (before : rcatalog) (l : list obs_step) (mm vv : bool) : store * rcatalog * bool * bool :=
  match l with
  | [] => (s, before, mm, vv)
  | st :: l' =>
      let '(s', ok) := apply s (o_op st) in
      walk s' (o_after st) l'
           (mm || negb (Bool.eqb ok (o_ok st)) || negb (listing_eqb (listing (smem s')) (o_after st)))
           (vv || step_violation before st)
  end.

Definition check (c : case) : verdict :=
  let '(s, last, mm, vv) := walk store_init [] (c_steps c) false false in
  mk_verdict (mm || negb (listing_eqb (listing (smem (reload s))) (c_reloaded c)))
             (vv || negb (listing_eqb (listing last) (c_reloaded c)))
             0.

(* compact constructors *)
Definition Rm (id : N) (s e : string) (v c st : N) : rmeta :=
  {| r_reg := {| g_id := id; g_start := unhex s; g_end := unhex e; g_ver := v; g_conf := c |}; r_state := st |}.
Definition St (o : op) (ok : bool) (after : list rmeta) : obs_step := {| o_op := o; o_ok := ok; o_after := after |}.
Definition Sp (p : N) (k : string) (ch : rmeta) : op := OpSplit p (unhex k) ch.
Definition Su (p : N) (k : string) (ch : rmeta) : op := OpSplitUnhosted p (unhex k) ch.
Definition Mg := OpMerge.
Definition Up := OpUpdate.
Definition Ss := OpSetState.
Definition Rv := OpRemove.
Definition Cs (steps : list obs_step) (reloaded : list rmeta) : case := {| c_steps := steps; c_reloaded := reloaded |}.

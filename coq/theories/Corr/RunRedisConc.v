(** Correspondence for C30: several connections hammer one key of the real
    gateway (embedded backend) with INCRBY (non-zero deltas) or SET NX; every
    reply and a final GET are recorded.

    violation = the clients' observations contradict Spec/RedisConcSpec.v
                (lost update: final <> initial + acknowledged deltas; or two
                SET NX told OK);
    mismatch  = the observations are impossible in the model with conflict
                detection on (Model/RedisConc.v): there every successful INCR
                returns its predecessor's value plus its delta, so the
                acknowledged replies form one serial chain from the initial to
                the final value; a SET NX round that ends with the key set has
                exactly one OK and the final value is the winner's. *)
From Coq Require Export List ZArith NArith Bool.
From NoKV Require Export Spec.RedisConcSpec Corr.Common.
Export ListNotations.

Inductive round :=
| RoundIncr (init final : Z) (acks : list ack) (errors : nat)
| RoundSetnx (oks : list Z) (nils : nat) (errors : nat) (final : option Z).

(** [Embedded]: rounds run by the harness against the gateway with the embedded
    backend. [Raft]: observations of the raft-backed backend (backend_raft.go
    driven by the reproduction test corpus/C30/f26_raft_backend_test.go.txt);
    a lost update there is known finding C30-F26 (class 2). *)
Inductive deployment := Embedded | Raft.
Record case := { c_dep : deployment; c_round : round }.

Definition check_round (c : round) (known : N) : verdict :=
  match c with
  | RoundIncr init final acks _ =>
      (* with positive deltas the values only grow, so the chain is unique and the greedy search is complete;
         with mixed deltas a value can be revisited and only the sum is compared *)
      mk_verdict (negb (if forallb (fun a => (0 <? fst a)%Z) acks
                        then serial_chain (S (List.length acks)) init final acks
                        else counter_ok_b init final acks))
                 (negb (counter_ok_b init final acks)) known
  | RoundSetnx oks _ _ final =>
      mk_verdict (negb (match oks, final with
                        | [w], Some f => Z.eqb w f
                        | [], None => true
                        | _, _ => false
                        end))
                 (negb (setnx_ok_b (List.length oks))) known
  end.

Definition K (d v : Z) : ack := (d, v).
Definition ZZ (z : Z) : Z := z.
Definition SomeZ (z : Z) : option Z := Some z.
Definition NoneZ : option Z := None.
Definition check (c : case) : verdict :=
  match c_dep c with
  | Embedded => check_round (c_round c) 0%N
  | Raft =>
      (* the raft variant of the model ([tstep_raft]) never refuses the second
         writer, so it does not constrain the replies beyond the specification:
         no model-side mismatch is raised for these rounds *)
      let v := check_round (c_round c) 2%N in mk_verdict false (v_violation v) (v_known v)
  end.

Definition RI (init final : Z) (acks : list ack) (errors : N) : case :=
  {| c_dep := Embedded; c_round := RoundIncr init final acks (N.to_nat errors) |}.
Definition RS (oks : list Z) (nils errors : N) (final : option Z) : case :=
  {| c_dep := Embedded; c_round := RoundSetnx oks (N.to_nat nils) (N.to_nat errors) final |}.
Definition RIraft (init final : Z) (acks : list ack) (errors : N) : case :=
  {| c_dep := Raft; c_round := RoundIncr init final acks (N.to_nat errors) |}.
Definition RSraft (oks : list Z) (nils errors : N) (final : option Z) : case :=
  {| c_dep := Raft; c_round := RoundSetnx oks (N.to_nat nils) (N.to_nat errors) final |}.

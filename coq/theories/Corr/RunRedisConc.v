(** Correspondence for C30: several connections hammer one key of the real
    gateway (embedded backend) with INCRBY (non-zero deltas) or SET NX; every
    reply and a final GET are recorded.

    violation = the clients' observations contradict Spec/RedisConcSpec.v
                (lost update: final <> initial + acknowledged deltas; or two
                SET NX told OK);
    mismatch  = the observations are impossible in the model with conflict
                detection on (Model/RedisConc.v): there every successful INCR
                returns its predecessor's value plus its delta, so the
                acknowledged replies form one serial chain from the initial to
                the final value; a SET NX round that ends with the key set has
                exactly one OK and the final value is the winner's. *)
From Coq Require Export List ZArith NArith Bool.
From NoKV Require Export Base.Sched Model.RedisConc Spec.RedisConcSpec Corr.Common.
Export ListNotations.

Inductive round :=
| RoundIncr (init final : Z) (acks : list ack) (errors : nat)
| RoundSetnx (oks : list Z) (nils : nat) (errors : nat) (final : option Z)
(** A controlled schedule executed on the real gateway (hook mode "sched":
    one pick = one client's begin step or commit step): the programs of the
    clients working on the key under test (clients working on other keys have
    the empty program), the schedule expanded to the model's granularity, and
    what the clients observed. *)
| RoundSched (base : option Z) (progs : list (list op)) (sched : list nat)
             (acked_sum : Z) (n_ok n_conflict : nat) (fin : option Z).

(** [Embedded]: rounds run by the harness against the gateway with the embedded
    backend. [Raft]: observations of the raft-backed backend (backend_raft.go
    driven by the reproduction test corpus/C30/f26_raft_backend_test.go.txt);
    a lost update there is known finding C30-F26 (class 2). *)
Inductive deployment := Embedded | Raft.
Record case := { c_dep : deployment; c_round : round }.

Definition optZ_eqb (a b : option Z) : bool :=
  match a, b with
  | Some x, Some y => Z.eqb x y
  | None, None => true
  | _, _ => false
  end.

Definition check_round (c : round) (known : N) : verdict :=
  match c with
  | RoundSched base progs sched acked_sum n_ok n_conflict fin =>
      (* the schedule is known, so the model predicts the outcome exactly *)
      let g := RedisConc.final true base progs sched in
      let all_incr := forallb (forallb is_incr) progs in
      let all_setnx := forallb (forallb is_setnx) progs in
      mk_verdict (negb (finished g && Z.eqb (acked g) acked_sum && Nat.eqb (oks g) n_ok
                        && Nat.eqb (conflicts g) n_conflict && optZ_eqb (latest base (hist g)) fin))
                 (negb (if all_incr then Z.eqb (num fin) (num base + acked_sum)
                        else if all_setnx then (match base with None => setnx_ok_b n_ok | Some _ => Nat.eqb n_ok 0 end)
                        else true))
                 known
  | RoundIncr init final acks _ =>
      (* with positive deltas the values only grow, so the chain is unique and the greedy search is complete;
         with mixed deltas a value can be revisited and only the sum is compared *)
      mk_verdict (negb (if forallb (fun a => (0 <? fst a)%Z) acks
                        then serial_chain (S (List.length acks)) init final acks
                        else counter_ok_b init final acks))
                 (negb (counter_ok_b init final acks)) known
  | RoundSetnx oks _ _ final =>
      mk_verdict (negb (match oks, final with
                        | [w], Some f => Z.eqb w f
                        | [], None => true
                        | _, _ => false
                        end))
                 (negb (setnx_ok_b (List.length oks))) known
  end.

Definition K (d v : Z) : ack := (d, v).
Definition ZZ (z : Z) : Z := z.
Definition SomeZ (z : Z) : option Z := Some z.
Definition NoneZ : option Z := None.
Definition check (c : case) : verdict :=
  match c_dep c with
  | Embedded => check_round (c_round c) 0%N
  | Raft =>
      (* the raft variant of the model ([tstep_raft]) never refuses the second
         writer, so it does not constrain the replies beyond the specification:
         no model-side mismatch is raised for these rounds *)
      let v := check_round (c_round c) 2%N in mk_verdict false (v_violation v) (v_known v)
  end.

Definition RI (init final : Z) (acks : list ack) (errors : N) : case :=
  {| c_dep := Embedded; c_round := RoundIncr init final acks (N.to_nat errors) |}.
Definition RS (oks : list Z) (nils errors : N) (final : option Z) : case :=
  {| c_dep := Embedded; c_round := RoundSetnx oks (N.to_nat nils) (N.to_nat errors) final |}.
Definition I (d : Z) : op := OIncr d.
Definition X (v : Z) : op := OSetNX v.
Definition RC (base : option Z) (progs : list (list op)) (sched : list N)
              (acked_sum : Z) (n_ok n_conflict : N) (fin : option Z) : case :=
  {| c_dep := Embedded;
     c_round := RoundSched base progs (map N.to_nat sched) acked_sum (N.to_nat n_ok) (N.to_nat n_conflict) fin |}.
Definition RIraft (init final : Z) (acks : list ack) (errors : N) : case :=
  {| c_dep := Raft; c_round := RoundIncr init final acks (N.to_nat errors) |}.
Definition RSraft (oks : list Z) (nils errors : N) (final : option Z) : case :=
  {| c_dep := Raft; c_round := RoundSetnx oks (N.to_nat nils) (N.to_nat errors) final |}.

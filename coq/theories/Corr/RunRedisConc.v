(** Correspondence for C30: several connections hammer one key of the real
    gateway (embedded backend) with INCRBY (non-zero deltas) or SET NX; every
    reply and a final GET are recorded.

    violation = the clients' observations contradict Spec/RedisConcSpec.v
                (lost update: final <> initial + acknowledged deltas; or two
                SET NX told OK);
    mismatch  = the observations are impossible in the model with conflict
                detection on (Model/RedisConc.v): there every successful INCR
                returns its predecessor's value plus its delta, so the
                acknowledged replies form one serial chain from the initial to
                the final value; a SET NX round that ends with the key set has
                exactly one OK and the final value is the winner's. *)
From Coq Require Export List ZArith NArith Bool.
From NoKV Require Export Spec.RedisConcSpec Corr.Common.
Export ListNotations.

Inductive round :=
| RoundIncr (init final : Z) (acks : list ack) (errors : nat)
| RoundSetnx (oks : list Z) (nils : nat) (errors : nat) (final : option Z).

Definition case := round.

Definition check (c : case) : verdict :=
  match c with
  | RoundIncr init final acks _ =>
      (* with positive deltas the values only grow, so the chain is unique and the greedy search is complete;
         with mixed deltas a value can be revisited and only the sum is compared *)
      mk_verdict (negb (if forallb (fun a => (0 <? fst a)%Z) acks
                        then serial_chain (S (List.length acks)) init final acks
                        else counter_ok_b init final acks))
                 (negb (counter_ok_b init final acks)) 0
  | RoundSetnx oks _ _ final =>
      mk_verdict (negb (match oks, final with
                        | [w], Some f => Z.eqb w f
                        | [], None => true
                        | _, _ => false
                        end))
                 (negb (setnx_ok_b (List.length oks))) 0
  end.

Definition K (d v : Z) : ack := (d, v).
Definition ZZ (z : Z) : Z := z.
Definition SomeZ (z : Z) : option Z := Some z.
Definition NoneZ : option Z := None.
Definition RI (init final : Z) (acks : list ack) (errors : N) : case := RoundIncr init final acks (N.to_nat errors).
Definition RS (oks : list Z) (nils errors : N) (final : option Z) : case :=
  RoundSetnx oks (N.to_nat nils) (N.to_nat errors) final.

(** Correspondence for C22 / C23 (family "cluster").

    Two kinds of cases:
    - [CPipe]: a bare [commandPipeline] driven directly (nextProposalID,
      registerProposal, removeProposal, applyEntries, waiters polled at the
      end) with the register map as applier; compared step by step with
      [Model.CmdPipeline].
    - [CCluster]: three real [store.Store]s on an in-memory network under
      message loss / duplication / reordering / partitions / restarts.  The
      observed global trace is replayed through the model ([gstep]): raft's
      choices (who is leader, which entries are delivered where, read
      indices) are inputs, NoKV's reactions (ids, NotLeader, results of the
      applier, which waiter receives which result, what a read returns) are
      compared.  Independently, the observed trace is judged by the oracles of
      [Spec.ClusterSpec] ([c22_ok], [c23_ok]). *)
From Coq Require Export List NArith Bool String.
From NoKV Require Export Base.Bytes Spec.SerialSpec Spec.Linearizable Model.CmdPipeline Spec.ClusterSpec Corr.Common.
Export ListNotations.
Local Open Scope N_scope.

Definition rentry := entry rcmd.
Definition rstore := store rcmd rresp rsm N.

(** * Pipeline unit cases *)
Inductive ustep :=
| USeq (n : N)                      (* the store has already handed out [n] request ids (counter preset) *)
| UNext (term : N) (obs : N)
| UOther (term : N) (obs : N)        (* ANOTHER store's pipeline (fresh at the start of the case) hands out an id in [term] *)
| UReg (region id tok : N) (obs : reg_out)
| URem (region id : N)
| UApply (es : list rentry) (obs : apply_out) (seen : list (N * option rresp)).  (* applier calls: uid, answer *)

Definition reg_out_eqb (a b : reg_out) : bool :=
  match a, b with RegOk, RegOk | RegDup, RegDup | RegNil, RegNil => true | _, _ => false end.
Definition apply_out_eqb (a b : apply_out) : bool :=
  match a, b with AOk, AOk | AErrDecode, AErrDecode | AErrLegacy, AErrLegacy | AErrApply, AErrApply => true | _, _ => false end.
Definition rresp_eqb (a b : rresp) : bool := (fst a =? fst b) && on_eqb (snd a) (snd b).
Definition orresp_eqb (a b : option rresp) : bool :=
  match a, b with
  | None, None => true
  | Some x, Some y => rresp_eqb x y
  | _, _ => false
  end.
Definition res_to_o (r : result rresp) : option rresp := match r with ROk x => Some x | RErr => None end.

Fixpoint seen_eqb (a : list (applied rcmd rresp)) (b : list (N * option rresp)) : bool :=
  match a, b with
  | [], [] => true
  | x :: a', (u, r) :: b' => (c_uid (ap_cmd x) =? u) && orresp_eqb (res_to_o (ap_res x)) r && seen_eqb a' b'
  | _, _ => false
  end.

(** returns the final state and whether every step agreed *)
Fixpoint urun (steps : list ustep) (s : rstore) : rstore * bool :=
  match steps with
  | [] => (s, true)
  | st :: steps' =>
      let '(s1, ok) :=
        match st with
        | USeq n =>
            ({| s_pipe := {| p_seq := n mod 2^64; p_props := p_props (s_pipe s) |}; s_sm := s_sm s; s_log := s_log s; s_done := s_done s; s_mark := s_mark s |}, true)
        | UOther _ _ => (s, true)
        | UNext term obs =>
            let '(id, p) := next_id term (s_pipe s) in
            ({| s_pipe := p; s_sm := s_sm s; s_log := s_log s; s_done := s_done s; s_mark := s_mark s |}, id =? obs)
        | UReg region id tok obs =>
            let '(ro, p) := register region id tok (s_pipe s) in
            ({| s_pipe := p; s_sm := s_sm s; s_log := s_log s; s_done := s_done s; s_mark := s_mark s |}, reg_out_eqb ro obs)
        | URem region id =>
            ({| s_pipe := unregister region id (s_pipe s); s_sm := s_sm s; s_log := s_log s; s_done := s_done s; s_mark := s_mark s |}, true)
        | UApply es obs seen =>
            let '(s', out) := apply_entries rapply es s in
            let fresh := rev (firstn (List.length (s_log s') - List.length (s_log s))%nat (s_log s')) in
            (s', apply_out_eqb out obs && seen_eqb fresh seen)
        end in
      let '(s2, ok') := urun steps' s1 in
      (s2, ok && ok')
  end.

(** the other store's ids: its counter starts at 0 *)
Fixpoint others_ok (steps : list ustep) (p : pipe N) : bool :=
  match steps with
  | [] => true
  | UOther term obs :: steps' => let '(id, p') := next_id term p in (id =? obs) && others_ok steps' p'
  | _ :: steps' => others_ok steps' p
  end.
(** Judged on the observations only (what C22 needs from request ids): a term
    has one leader, so two stores hand out ids in DIFFERENT terms; such ids must
    differ, or an entry of one store completes the other store's waiter. *)
Definition ids_of (steps : list ustep) : list (N * N) :=
  flat_map (fun st => match st with UNext t id => [(t, id)] | _ => [] end) steps.
Definition other_ids_of (steps : list ustep) : list (N * N) :=
  flat_map (fun st => match st with UOther t id => [(t, id)] | _ => [] end) steps.
Definition ids_collide (steps : list ustep) : bool :=
  existsb (fun a => existsb (fun b => (fst a <? 2^32) && (fst b <? 2^32) && negb (fst a =? fst b) && (snd a =? snd b))
                            (other_ids_of steps)) (ids_of steps).

(** final poll: for every token, what its waiter received (None = nothing) *)
Definition polled_ok (s : rstore) (final : list (N * option (option rresp))) : bool :=
  forallb (fun tr =>
    let '(tok, obs) := tr in
    match find (fun k => k_w k =? tok) (rev (s_done s)), obs with
    | None, None => true
    | Some k, Some r => orresp_eqb (res_to_o (ap_res (k_by k))) r
    | _, _ => false
    end) final.
(** spec side of a unit case: a token registered under an id that no other
    registration and exactly one applied entry uses must receive that entry's
    answer (judged on the observations only). *)
Definition regs_of (steps : list ustep) : list (N * N) :=
  flat_map (fun st => match st with UReg _ id tok RegOk => [(id, tok)] | _ => [] end) steps.

(** * Cluster cases *)
Record rstate := {
  r_g : gstate rcmd rresp rsm;
  r_ok : bool;
  r_served : list (N * N);          (* (store, region) -> largest apply mark observed at a served read, this incarnation *)
  r_last : list (N * N);            (* (store, region) -> index of the last entry applied, this incarnation *)
  r_owed : list (N * N);            (* (store, call): the model completed this waiter; its call has to return, unless
                                       the store's process dies first (then the answer is lost with it) *)
  r_cmds : list (N * rcmd)          (* client call -> its command *)
}.
Definition served_of (l : list (N * N)) (s : N) : N :=
  match find (fun x => fst x =? s) l with Some (_, m) => m | None => 0 end.
Definition set_served (l : list (N * N)) (s m : N) : list (N * N) :=
  (s, m) :: filter (fun x => negb (fst x =? s)) l.

Definition gs := gstep rapply (next_id (W := N)).
Definition store_of (g : gstate rcmd rresp rsm) (s : N) : rstore := snd (get_store g s).

Definition out_matches (o : call_out) (p : pobs) : bool :=
  match o, p with
  | ONotLeader _, PoNotLeader => true
  | OWaiting id, PoRegistered id' => id =? id'
  | OReading _, PoStarted | OReading _, PoDropped | OWaiting _, PoDropped => true
  | _, _ => false
  end.
Definition head_out (g : gstate rcmd rresp rsm) : call_out :=
  match g_outs g with (_, o) :: _ => o | [] => ORegionError end.

Definition predicted (g : gstate rcmd rresp rsm) (w : N) : option (option rresp) :=
  match find (fun k => k_w k =? w) (flat_map (completions g) [1; 2; 3]) with
  | Some k => Some (res_to_o (ap_res (k_by k)))
  | None => None
  end.

Definition rstep (r : rstate) (e : oev) : rstate :=
  let g := r_g r in
  match e with
  | OStart s =>
      {| r_g := gs g (GStart s); r_ok := r_ok r;
         r_served := filter (fun x => negb (fst x / 2^32 =? s)) (r_served r);
         r_last := filter (fun x => negb (fst x / 2^32 =? s)) (r_last r);
         r_owed := filter (fun x => negb (fst x =? s)) (r_owed r); r_cmds := r_cmds r |}
  | OPropose s region w c leader term o =>
      let g1 := gs g (GPropose s region w c (VStatus leader term 0)) in
      (* raft refused the proposal: ProposeCommand removes the waiter again and returns the error *)
      let g' := match o, head_out g1 with PoDropped, OWaiting id => gs g1 (GTimeout s region id) | _, _ => g1 end in
      {| r_g := g'; r_ok := r_ok r && out_matches (head_out g1) o; r_served := r_served r; r_last := r_last r; r_owed := r_owed r; r_cmds := (w, c) :: r_cmds r |}
  | ORead s region w c leader term o =>
      let g' := gs g (GRead s w (VStatus leader term 0)) in
      {| r_g := g'; r_ok := r_ok r && out_matches (head_out g') o; r_served := r_served r; r_last := r_last r; r_owed := r_owed r; r_cmds := (w, c) :: r_cmds r |}
  | OApply s region i t id c res =>
      let e := {| e_index := i; e_term := t; e_kind := ENormal; e_data := PCmd region id c |} in
      let before := store_of g s in
      let g' := gs g (GDeliver s [e]) in
      let after := store_of g' s in
      let ok_res := match s_log after with
                    | a :: _ => orresp_eqb (res_to_o (ap_res a)) res
                    | [] => false
                    end in
      (* ordered delivery as the model needs it, and WaitApplied's promise to earlier reads *)
      let ok_ord := served_of (r_last r) (skey s region) <? i in
      let ok_mark := served_of (r_served r) (skey s region) <? i in
      {| r_g := g'; r_ok := r_ok r && ok_res && ok_ord && ok_mark; r_served := r_served r;
         r_last := set_served (r_last r) (skey s region) i;
         r_owed := match completions g' s with
                   | k :: rest => if Nat.eqb (List.length rest) (List.length (completions g s))
                                  then (s, k_w k) :: r_owed r else r_owed r
                   | [] => r_owed r
                   end;
         r_cmds := r_cmds r |}
  | OServe s region w ridx mark =>
      let st := store_of g s in
      (* WaitApplied let the read through: the mark covers the read index (what the mark
         promises is checked at the later OApply events of this store) *)
      let ok := (ridx =? 0) || (ridx <=? mark) in
      {| r_g := g; r_ok := r_ok r && ok; r_served := set_served (r_served r) (skey s region) (N.max mark (served_of (r_served r) (skey s region)));
         r_last := r_last r;
         r_owed := r_owed r; r_cmds := r_cmds r |}
  | OExec s w res =>
      let st := store_of g s in
      let ok := match find (fun x => fst x =? w) (r_cmds r) with
                | Some (_, c) => orresp_eqb (snd (rapply (s_sm st) c)) res
                | None => false
                end in
      {| r_g := g; r_ok := r_ok r && ok; r_served := r_served r; r_last := r_last r; r_owed := r_owed r; r_cmds := r_cmds r |}
  | ORet w o =>
      let ok := match o with
                | RoOk uid v =>
                    match predicted g w with
                    | Some (Some x) => rresp_eqb x (uid, v)
                    | Some None => false
                    | None => true     (* a ReadCommand: compared at OExec *)
                    end
                | RoNotLeader => match predicted g w with None => true | Some _ => false end
                | RoErr => true
                end in
      {| r_g := g; r_ok := r_ok r && ok; r_served := r_served r; r_last := r_last r; r_owed := filter (fun x => negb (snd x =? w)) (r_owed r); r_cmds := r_cmds r |}
  end.

(** a successful ReadCommand returns what its OExec saw *)
Definition reads_consistent (evs : list oev) : bool :=
  forallb (fun e => match e with
                    | ORead _ _ w _ true _ _ =>
                        match ret_of evs w with
                        | Some (RoOk uid v) =>
                            existsb (fun e' => match e' with
                                               | OExec _ w' (Some x) => (w' =? w) && rresp_eqb x (uid, v)
                                               | _ => false
                                               end) evs
                        | _ => true
                        end
                    | _ => true
                    end) evs.

Definition replay (evs : list oev) : rstate :=
  fold_left rstep evs {| r_g := ginit ([] : rsm); r_ok := true; r_served := []; r_last := []; r_owed := []; r_cmds := [] |}.

(** every waiter that the model completes and whose call returned was compared;
    conversely a call that returned success must have a model completion *)
Definition returns_predicted (evs : list oev) (g : gstate rcmd rresp rsm) : bool :=
  forallb (fun e => match e with
                    | OPropose _ _ w _ true _ (PoRegistered _) =>
                        match ret_of evs w with
                        | Some (RoOk _ _) => match predicted g w with Some _ => true | None => false end
                        | _ => true
                        end
                    | _ => true
                    end) evs.

Inductive case :=
| CPipe (steps : list ustep) (final : list (N * option (option rresp)))
| CCluster (prop : N) (evs : list oev).

Definition check (c : case) : verdict :=
  match c with
  | CPipe steps final =>
      let '(s, ok) := urun steps (store_init ([] : rsm)) in
      mk_verdict (negb (ok && others_ok steps pipe_init && polled_ok s final)) (ids_collide steps) 0
  | CCluster prop evs =>
      let r := replay evs in
      let mism := negb (r_ok r && reads_consistent evs && returns_predicted evs (r_g r) &&
                       match r_owed r with [] => true | _ => false end) in
      let viol := if prop =? 23 then negb (c23_ok evs) else negb (c22_ok evs) in
      mk_verdict mism viol 0
  end.

(* compact constructors for the harness *)
Definition Pt (u k v : N) : rcmd := {| c_uid := u; c_op := RPut k v |}.
Definition Gt (u k : N) : rcmd := {| c_uid := u; c_op := RGet k |}.
Definition Fl (u : N) : rcmd := {| c_uid := u; c_op := RFail |}.
Definition En (i t g id : N) (c : rcmd) : rentry := {| e_index := i; e_term := t; e_kind := ENormal; e_data := PCmd g id c |}.
Definition Ex (i t : N) (k : ekind) (d : payload rcmd) : rentry := {| e_index := i; e_term := t; e_kind := k; e_data := d |}.

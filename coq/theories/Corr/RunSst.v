(** Correspondence for C35: the Go harness builds a real SSTable
    (lsm.VerifBuildTable: tableBuilder.AddKey* + openTable) from a sorted
    entry list with a chosen block size, observes its block index, bloom
    filter, full forward / reverse iteration, table.Search and Seek(+Next) on
    many targets, then reopens the file (openTable without builder, fresh
    caches) and observes everything again.

    mismatch  = the model (Model/Sst.v, Model/Bloom.v) answers differently;
    violation = an observed answer contradicts Spec/SstSpec.v on the entry
                list (independent of the model). *)
From Coq Require Export List NArith ZArith Bool String.
From NoKV Require Export Base.Bytes Base.Num Model.Keys Model.Bloom Model.Sst Spec.SstSpec Corr.Common.
Export ListNotations.
Local Open Scope N_scope.

(** an observed entry list: [Same] = the built entries in order, [Rev] = in
    reverse order, [Lst l] = anything else *)
Inductive olist := Same | Rev | Lst (l : list entry).

(** an observed entry: [I n] = the n-th built entry (from 0), [X e] = another one *)
Inductive oent := I (n : N) | X (e : entry).

(** byte strings in case files: a string literal in [hx_scope] is read as the
    list of its characters (cheaper to parse than [string]); [hb] decodes hex *)
Inductive hx := Hx (l : list Byte.byte).
Definition hx_parse (l : list Byte.byte) : hx := Hx l.
Definition hx_print (h : hx) : list Byte.byte := match h with Hx l => l end.
Declare Scope hx_scope.
Delimit Scope hx_scope with hx.
String Notation hx hx_parse hx_print : hx_scope.

Definition hexval_b (b : Byte.byte) : N :=
  let n := b2n b in
  if (48 <=? n) && (n <=? 57) then n - 48
  else if (97 <=? n) && (n <=? 102) then n - 87
  else if (65 <=? n) && (n <=? 70) then n - 55
  else 0.
Fixpoint unhex_b (l : list Byte.byte) : bytes :=
  match l with
  | a :: b :: l' => n2b (hexval_b a * 16 + hexval_b b) :: unhex_b l'
  | _ => []
  end.
Definition hb (h : hx) : bytes := unhex_b (hx_print h).

(** a lookup target key: the base key of built entry [i] (or an explicit base
    key) with version [ver], i.e. kv.KeyWithTs(base, ver) *)
Inductive tkey := TB (i : N) (ver : N) | TX (base : hx) (ver : N).

(** a lookup target: Search(key, &maxvs), Seek(key) forward and reverse *)
Record target := { tg_spec : tkey; tg_maxvs : N }.

Definition key_of (es : list entry) (k : tkey) : bytes :=
  match k with
  | TB i ver => match nth_error es (N.to_nat i) with
                | Some e => key_with_ts (parse_key (e_key e)) ver
                | None => []
                end
  | TX b ver => key_with_ts (hb b) ver
  end.
(** what the table answered: Search; Seek + up to 3 items with Next, forward; same, reverse *)
Record tres := { r_search : option oent; r_fwd : list oent; r_rev : list oent }.

(** block index entry: base key = key of built entry [i] / explicit; entries; BlockOffset.Len *)
Inductive lay := L (i n len : N) | LX (base : hx) (n len : N).

(** repeated Seeks on ONE iterator: direction, the targets (indices into the case's
    target list) in the order they were sought, and per Seek the entry landed on plus
    up to [seq_limit]-1 entries reached with Next *)
Record seqobs := { sq_asc : bool; sq_targets : list N; sq_res : list (list oent) }.

Record obs := {
  o_layout : list lay;
  o_bloom : bytes; o_maxver : N; o_count : N;
  o_fwd : olist; o_rev : olist;
  o_res : list tres;
  o_seqs : list seqobs;
  o_stale : option N }.   (* TableIndex.StaleDataSize, when observed *)

(** observations after reopening: [AsBuilt] = identical to those before *)
Inductive robs := AsBuilt | Reopened (o : obs).

Record case := {
  c_bsz : N; c_with_bloom : bool; c_bpk : N; c_k : N;
  c_entries : list entry;
  c_stale : list N;   (* indices of the entries added through AddStaleEntryWithLen(e, len(value)) *)
  c_targets : list target;
  c_built : obs; c_reopened : robs }.

Definition seek_limit : nat := 3.

Definition resolve (es : list entry) (o : olist) : list entry :=
  match o with Same => es | Rev => rev es | Lst l => l end.

Definition resolve_ent (es : list entry) (o : oent) : option entry :=
  match o with I n => nth_error es (N.to_nat n) | X e => Some e end.

(** [None]: an index outside the built entries (always a mismatch and a violation) *)
Fixpoint resolve_ents (es : list entry) (os : list oent) : option (list entry) :=
  match os with
  | [] => Some []
  | o :: os' =>
      match resolve_ent es o, resolve_ents es os' with
      | Some e, Some l => Some (e :: l)
      | _, _ => None
      end
  end.

Definition resolve_opt (es : list entry) (o : option oent) : option (option entry) :=
  match o with
  | None => Some None
  | Some x => match resolve_ent es x with Some e => Some (Some e) | None => None end
  end.

Definition layout_of (t : table) : list (bytes * N * N) :=
  map (fun b => (b_base b, b_count b, b_len b)) (t_blocks t).

Definition lay_resolve (es : list entry) (l : lay) : bytes * N * N :=
  match l with
  | L i n len => (match nth_error es (N.to_nat i) with Some e => e_key e | None => [] end, n, len)
  | LX b n len => (hb b, n, len)
  end.

Definition layout_eqb (a b : list (bytes * N * N)) : bool :=
  list_eqb (fun x y => match x, y with (k1, n1, l1), (k2, n2, l2) => bytes_eqb k1 k2 && (n1 =? n2) && (l1 =? l2) end) a b.

Definition olist_ok (m : option (list entry)) (obs : list entry) : bool :=
  match m with Some l => list_eqb entry_eqb l obs | None => false end.

(** Seek, then at most [n] items: [for it.Seek(k); it.Valid() && len(out) < n; it.Next()] *)
Fixpoint take_items (asc : bool) (t : table) (n : nat) (it : titer) : list entry :=
  match n with
  | O => []
  | S n' => match ti_item it with
            | None => []
            | Some e => e :: take_items asc t n' (ti_next asc t it)
            end
  end.

Definition ents_ok (es : list entry) (model : list entry) (o : list oent) : bool :=
  match resolve_ents es o with
  | Some o' => list_eqb entry_eqb model o'
  | None => false
  end.

Definition search_ok (es : list entry) (model : option entry) (o : option oent) : bool :=
  match resolve_opt es o with
  | Some o' => opt_eqb entry_eqb model o'
  | None => false
  end.

Fixpoint forallb2 {A B} (f : A -> B -> bool) (a : list A) (b : list B) : bool :=
  match a, b with
  | [], [] => true
  | x :: a', y :: b' => f x y && forallb2 f a' b'
  | _, _ => false
  end.

Definition res_model_ok (t : table) (es : list entry) (tg : target) (r : tres) : bool :=
  let k := key_of es (tg_spec tg) in
  search_ok es (search t k (tg_maxvs tg)) (r_search r)
  && ents_ok es (take_items true t seek_limit (tseek true t k)) (r_fwd r)
  && ents_ok es (take_items false t seek_limit (tseek false t k)) (r_rev r).

Definition res_spec_ok (es : list entry) (tg : target) (r : tres) : bool :=
  let k := key_of es (tg_spec tg) in
  search_ok es (spec_search es k (tg_maxvs tg)) (r_search r)
  && ents_ok es (firstn seek_limit (spec_from true es k)) (r_fwd r)
  && ents_ok es (firstn seek_limit (spec_from false es k)) (r_rev r).

Definition seq_limit : nat := 2.

(** setBlock resets the block iterator completely, so every Seek on a used
    iterator answers like a Seek on a fresh one *)
Definition seq_ok (es : list entry) (tgs : list target) (answer : bool -> bytes -> list entry) (sq : seqobs) : bool :=
  forallb2 (fun i r =>
              match nth_error tgs (N.to_nat i) with
              | Some tg => ents_ok es (firstn seq_limit (answer (sq_asc sq) (key_of es (tg_spec tg)))) r
              | None => false
              end) (sq_targets sq) (sq_res sq).

(** tableBuilder.staleDataSize: a stale add counts key + value + 8, and key + 8 once
    more when the entry opens a block; everything else about a stale add (blocks, key
    hashes for the bloom filter, MaxVersion) is the plain [add] *)
Definition block_starts (t : table) : list N :=
  snd (fold_left (fun acc b => (fst acc + b_count b, snd acc ++ [fst acc])) (t_blocks t) (0, [])).
Definition stale_size (t : table) (es : list entry) (stale : list N) : N :=
  let starts := block_starts t in
  fold_left (fun n i =>
               match nth_error es (N.to_nat i) with
               | Some e => n + blen (e_key e) + blen (vs_val (e_vs e)) + 8
                           + (if existsb (N.eqb i) starts then blen (e_key e) + 8 else 0)
               | None => n
               end) stale 0.

Definition obs_model_ok (t : table) (es : list entry) (stale : list N) (tgs : list target) (o : obs) : bool :=
  layout_eqb (layout_of t) (map (lay_resolve es) (o_layout o))
  && bytes_eqb (t_bloom t) (o_bloom o) && (t_maxver t =? o_maxver o) && (t_count t =? o_count o)
  && olist_ok (iterate true t) (resolve es (o_fwd o))
  && olist_ok (iterate false t) (resolve es (o_rev o))
  && forallb2 (res_model_ok t es) tgs (o_res o)
  && forallb (seq_ok es tgs (fun asc k => take_items asc t seq_limit (tseek asc t k))) (o_seqs o)
  && match o_stale o with Some n => n =? N.min (stale_size t es stale) 4294967295 | None => true end.

Definition obs_spec_ok (es : list entry) (tgs : list target) (o : obs) : bool :=
  list_eqb entry_eqb (spec_iter true es) (resolve es (o_fwd o))
  && list_eqb entry_eqb (spec_iter false es) (resolve es (o_rev o))
  && forallb2 (res_spec_ok es) tgs (o_res o)
  && forallb (seq_ok es tgs (fun asc k => spec_from asc es k)) (o_seqs o).

Definition check (c : case) : verdict :=
  let es := c_entries c in
  let tgs := c_targets c in
  let m :=
    match build (c_bsz c) (c_with_bloom c) (c_bpk c) (c_k c) es with
    | None => true
    | Some t =>
        negb (obs_model_ok t es (c_stale c) tgs (c_built c)
              && match c_reopened c with AsBuilt => true | Reopened o => obs_model_ok t es (c_stale c) tgs o end)
    end in
  (* the specification speaks about sorted tables of well-formed internal keys *)
  let pre := sorted_b es && keys_ok_b es in
  let v := pre && negb (obs_spec_ok es tgs (c_built c)
                        && match c_reopened c with AsBuilt => true | Reopened o => obs_spec_ok es tgs o end) in
  mk_verdict m v 0.

(* helpers so that the harness prints compact terms *)
Definition E (k : hx) (meta exp : N) (v : hx) : entry :=
  {| e_key := hb k; e_vs := {| vs_meta := meta; vs_exp := exp; vs_val := hb v |} |}.
Arguments E k%hx meta%N exp%N v%hx.
Arguments TX base%hx ver%N.
Arguments LX base%hx n%N len%N.
Definition T (k : tkey) (mv : N) : target := {| tg_spec := k; tg_maxvs := mv |}.
Definition R (s : option oent) (f r : list oent) : tres := {| r_search := s; r_fwd := f; r_rev := r |}.
Definition OS (lay : list lay) (bloom : hx) (maxver count : N) (fwd rev : olist) (rs : list tres) (sqs : list seqobs) : obs :=
  {| o_layout := lay; o_bloom := hb bloom; o_maxver := maxver; o_count := count;
     o_fwd := fwd; o_rev := rev; o_res := rs; o_seqs := sqs; o_stale := None |}.
Arguments OS lay bloom%hx maxver%N count%N fwd rev rs sqs.
Definition OT (lay : list lay) (bloom : hx) (maxver count stale : N) (fwd rev : olist) (rs : list tres) (sqs : list seqobs) : obs :=
  {| o_layout := lay; o_bloom := hb bloom; o_maxver := maxver; o_count := count;
     o_fwd := fwd; o_rev := rev; o_res := rs; o_seqs := sqs; o_stale := Some stale |}.
Arguments OT lay bloom%hx maxver%N count%N stale%N fwd rev rs sqs.
Definition O (lay : list lay) (bloom : hx) (maxver count : N) (fwd rev : olist) (rs : list tres) : obs :=
  OS lay bloom maxver count fwd rev rs [].
Arguments O lay bloom%hx maxver%N count%N fwd rev rs.
Definition SQ (asc : bool) (ts : list N) (rs : list (list oent)) : seqobs := {| sq_asc := asc; sq_targets := ts; sq_res := rs |}.
Definition Cs (bsz : N) (wb : bool) (bpk k : N) (es : list entry) (tgs : list target) (b : obs) (r : robs) : case :=
  {| c_bsz := bsz; c_with_bloom := wb; c_bpk := bpk; c_k := k; c_entries := es; c_stale := []; c_targets := tgs;
     c_built := b; c_reopened := r |}.
(** a build program with stale adds *)
Definition Ct (bsz : N) (wb : bool) (bpk k : N) (es : list entry) (stale : list N) (tgs : list target) (b : obs) (r : robs) : case :=
  {| c_bsz := bsz; c_with_bloom := wb; c_bpk := bpk; c_k := k; c_entries := es; c_stale := stale; c_targets := tgs;
     c_built := b; c_reopened := r |}.

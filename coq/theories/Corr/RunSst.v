(** Correspondence for C35: the Go harness builds a real SSTable
    (lsm.VerifBuildTable: tableBuilder.AddKey* + openTable) from a sorted
    entry list with a chosen block size, observes its block index, bloom
    filter, full forward / reverse iteration, table.Search and Seek(+Next) on
    many targets, then reopens the file (openTable without builder, fresh
    caches) and observes everything again.

    mismatch  = the model (Model/Sst.v, Model/Bloom.v) answers differently;
    violation = an observed answer contradicts Spec/SstSpec.v on the entry
                list (independent of the model). *)
From Coq Require Export List NArith ZArith Bool String.
From NoKV Require Export Base.Bytes Base.Num Model.Keys Model.Bloom Model.Sst Spec.SstSpec Corr.Common.
Export ListNotations.
Local Open Scope N_scope.

(** an observed entry list: [Same] = the built entries in order, [Rev] = in
    reverse order, [Lst l] = anything else *)
Inductive olist := Same | Rev | Lst (l : list entry).

Inductive query :=
| QSearch (key : bytes) (maxvs : N) (obs : option entry)     (* table.Search *)
| QSeek (asc : bool) (key : bytes) (obs : list entry).       (* Seek, then up to 3 items with Next *)

Record obs := {
  o_layout : list (bytes * N * N);    (* per block: base key, entries, BlockOffset.Len *)
  o_bloom : bytes; o_maxver : N; o_count : N;
  o_fwd : olist; o_rev : olist;
  o_queries : list query }.

Record case := {
  c_bsz : N; c_with_bloom : bool; c_bpk : N; c_k : N;
  c_entries : list entry;
  c_built : obs; c_reopened : obs }.

Definition seek_limit : nat := 3.

Definition resolve (es : list entry) (o : olist) : list entry :=
  match o with Same => es | Rev => rev es | Lst l => l end.

Definition layout_of (t : table) : list (bytes * N * N) :=
  map (fun b => (b_base b, b_count b, b_len b)) (t_blocks t).

Definition layout_eqb (a b : list (bytes * N * N)) : bool :=
  list_eqb (fun x y => match x, y with (k1, n1, l1), (k2, n2, l2) => bytes_eqb k1 k2 && (n1 =? n2) && (l1 =? l2) end) a b.

Definition olist_ok (m : option (list entry)) (obs : list entry) : bool :=
  match m with Some l => list_eqb entry_eqb l obs | None => false end.

Definition query_model_ok (t : table) (q : query) : bool :=
  match q with
  | QSearch k mv o => opt_eqb entry_eqb (search t k mv) o
  | QSeek asc k o =>
      match seek_iterate asc t k with
      | Some l => list_eqb entry_eqb (firstn seek_limit l) o
      | None => false
      end
  end.

Definition query_spec_ok (es : list entry) (q : query) : bool :=
  match q with
  | QSearch k mv o => opt_eqb entry_eqb (spec_search es k mv) o
  | QSeek asc k o => list_eqb entry_eqb (firstn seek_limit (spec_from asc es k)) o
  end.

Definition obs_model_ok (t : table) (es : list entry) (o : obs) : bool :=
  layout_eqb (layout_of t) (o_layout o)
  && bytes_eqb (t_bloom t) (o_bloom o) && (t_maxver t =? o_maxver o) && (t_count t =? o_count o)
  && olist_ok (iterate true t) (resolve es (o_fwd o))
  && olist_ok (iterate false t) (resolve es (o_rev o))
  && forallb (query_model_ok t) (o_queries o).

Definition obs_spec_ok (es : list entry) (o : obs) : bool :=
  list_eqb entry_eqb (spec_iter true es) (resolve es (o_fwd o))
  && list_eqb entry_eqb (spec_iter false es) (resolve es (o_rev o))
  && forallb (query_spec_ok es) (o_queries o).

Definition check (c : case) : verdict :=
  let es := c_entries c in
  let m :=
    match build (c_bsz c) (c_with_bloom c) (c_bpk c) (c_k c) es with
    | None => true
    | Some t => negb (obs_model_ok t es (c_built c) && obs_model_ok t es (c_reopened c))
    end in
  (* the specification speaks about sorted tables of well-formed internal keys *)
  let pre := sorted_b es && keys_ok_b es in
  let v := pre && negb (obs_spec_ok es (c_built c) && obs_spec_ok es (c_reopened c)) in
  mk_verdict m v 0.

(* helpers so that the harness prints compact terms *)
Definition E (k : string) (meta exp : N) (v : string) : entry :=
  {| e_key := unhex k; e_vs := {| vs_meta := meta; vs_exp := exp; vs_val := unhex v |} |}.
Definition L (k : string) (n len : N) : bytes * N * N := (unhex k, n, len).
Definition QS (k : string) (mv : N) (o : option entry) : query := QSearch (unhex k) mv o.
Definition QK (asc : bool) (k : string) (o : list entry) : query := QSeek asc (unhex k) o.
Definition O (lay : list (bytes * N * N)) (bloom : string) (maxver count : N) (fwd rev : olist) (qs : list query) : obs :=
  {| o_layout := lay; o_bloom := unhex bloom; o_maxver := maxver; o_count := count;
     o_fwd := fwd; o_rev := rev; o_queries := qs |}.
Definition Cs (bsz : N) (wb : bool) (bpk k : N) (es : list entry) (b r : obs) : case :=
  {| c_bsz := bsz; c_with_bloom := wb; c_bpk := bpk; c_k := k; c_entries := es; c_built := b; c_reopened := r |}.

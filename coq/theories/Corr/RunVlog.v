(** Correspondence for the value-log family (C08): the harness drives a real
    DB (ValueThreshold 32, small value-log files, 1-3 buckets, background
    compaction paused, flushes gated) through write requests, GC of chosen
    value-log files (also with a writer at GC's yield point), LSM maintenance
    and reopen, and records every read and the value-log layout; the model
    [Model/Vlog.v] + [Model/Lsm.v] replays the trace, the oracle is
    [Spec/VlogSpec.v] over the history of full values. *)
From Coq Require Export List NArith Bool String.
From NoKV Require Export Base.Bytes Base.Num Model.EntryCodec Model.Lsm Model.Vlog Spec.MvccSpec Spec.VlogSpec Corr.Common.
Export ListNotations.
Local Open Scope N_scope.

(** observed result of a point read: not found / error / value + meta *)
(** observed value bytes: literally, or "the bytes of the write with ghost number n" (keeps the case files small) *)
Inductive vref := VH (s : string) | VS (n : N).
Definition deref (ws : list rec) (v : vref) : option bytes :=
  match v with
  | VH s => Some (unhex s)
  | VS n => option_map r_val (find (fun w => r_seq w =? n) ws)
  end.
Inductive robs := RN | RE | RV (v : vref) (m : N).
(** [None]: a dangling reference (reported as a mismatch) *)
Definition to_obs (ws : list rec) (r : robs) : option obs :=
  match r with
  | RN => Some ONone
  | RE => Some OErr
  | RV v m => option_map (fun b => OVal b m) (deref ws v)
  end.
Definition item := (string * N * vref * N)%type.

Inductive xop :=
| XW (batch : list rec)                                   (* one acknowledged write request, full values *)
| XGC (bk fid nseq res : N)                               (* valueLog.rewrite; res 0 = nil error *)
| XGCW (bk fid nseq : N) (batch : list rec) (res : N)     (* the same with a writer's request at the yield point *)
(* hot/cold bucket routing: the bucket of every out-of-line entry is reported (Model/Vlog.v db_write_r) *)
| XWr (batch : list (rec * N))
| XGCr (bk fid nseq res : N) (routes : list (bytes * N * N))
| XGCWr (bk fid nseq : N) (batch : list (rec * N)) (res : N) (routes : list (bytes * N * N))
| XVl (l : list (N * N * N * list (N * N)))               (* per bucket: index, active fid, head offset, (fid, #records) *)
| XRotate (newid : N)
| XFlush
| XCompact (k : kind) (lvl : N) (top bot : list N) (added : list (N * N))
| XReopen (memid maxfid : N) (heads : list (N * N * N))
| XLayout (imms : list N) (l0 : list N) (lvls : list (list (list N) * list N))
| XGetV (k : bytes) (v : N) (o : robs)                    (* GetVersionedEntry *)
| XGetP (k : bytes) (o : robs)                            (* GetCF *)
| XGetT (k : bytes) (ts : N) (o : robs)                   (* Txn.Get at its read timestamp *)
| XIter (items : list item)                               (* DB iterator: base key, version, value, meta *)
| XIterSame (before after : list item).

Record case := { c_memid : N; c_now : N; c_cfg : cfg; c_ops : list xop }.

(** * layout bookkeeping (as in the LSM family) *)
Definition fids (ts : list table) : list N := map t_fid ts.
Definition nlist_eqb (a b : list N) : bool := if list_eq_dec N.eq_dec a b then true else false.
Definition same_set (a b : list N) : bool :=
  (Nat.eqb (List.length a) (List.length b)) && forallb (fun x => existsb (N.eqb x) b) a && forallb (fun x => existsb (N.eqb x) a) b.
Definition level_layout_ok (lv : level) (o : list (list N) * list N) : bool :=
  nlist_eqb (fids (lv_main lv)) (snd o) &&
  (Nat.eqb (List.length (lv_shards lv)) (List.length (fst o))) &&
  forallb (fun p => same_set (fids (fst p)) (snd p)) (combine (lv_shards lv) (fst o)).
Definition reorder (ts : list table) (order : list N) : list table :=
  List.concat (map (fun f => filter (fun t => t_fid t =? f) ts) order).
Definition adopt (lv : level) (o : list (list N) * list N) : level :=
  {| lv_shards := map (fun p => reorder (fst p) (snd p)) (combine (lv_shards lv) (fst o)); lv_main := lv_main lv |}.
Definition set_maxfid (s : state) (m : N) : state :=
  {| st_mem := st_mem s; st_memid := st_memid s; st_imms := st_imms s; st_l0 := st_l0 s; st_lvls := st_lvls s; st_maxfid := m |}.
Definition set_memid (s : state) (m : N) : state :=
  {| st_mem := st_mem s; st_memid := m; st_imms := st_imms s; st_l0 := st_l0 s; st_lvls := st_lvls s; st_maxfid := N.max m (st_maxfid s) |}.
Definition with_lsm (d : db) (s : state) : db := {| d_lsm := s; d_vl := d_vl d |}.

Definition vl_layout (vl : list bucket) : list (N * N * N * list (N * N)) :=
  snd (fold_left (fun a b => (fst a + 1, snd a ++ [(fst a, b_active b, b_off b,
                                   map (fun f => (vf_fid f, N.of_nat (List.length (vf_recs f)))) (b_files b))]))
                 vl (0, [])).
Definition vl_entry_eqb (a b : N * N * N * list (N * N)) : bool :=
  let '(i, act, off, fs) := a in let '(i', act', off', fs') := b in
  (i =? i') && (act =? act') && (off =? off') &&
  nlist_eqb (map fst fs) (map fst fs') && nlist_eqb (map snd fs) (map snd fs').
Fixpoint vl_eqb (a b : list (N * N * N * list (N * N))) : bool :=
  match a, b with
  | [], [] => true
  | x :: a', y :: b' => vl_entry_eqb x y && vl_eqb a' b'
  | _, _ => false
  end.

(** * replay *)
Record acc := { a_db : db; a_ws : list rec; a_mis : bool; a_vio : bool; a_known : N;
                a_moved : list bytes;    (* base keys some GC moved *)
                a_raced : list bytes }.  (* base keys written at a GC yield point *)

Definition upd (a : acc) (d : db) : acc :=
  {| a_db := d; a_ws := a_ws a; a_mis := a_mis a; a_vio := a_vio a; a_known := a_known a; a_moved := a_moved a; a_raced := a_raced a |}.
Definition flag (a : acc) (mis vio : bool) (cls : N) : acc :=
  {| a_db := a_db a; a_ws := a_ws a; a_mis := a_mis a || mis; a_vio := a_vio a || vio;
     a_known := if vio then (if (cls =? 0) || (cls =? 999) || (a_known a =? 999) then 999 else N.max cls (a_known a)) else a_known a;
     a_moved := a_moved a; a_raced := a_raced a |}.

Definition gres_obs (g : gres) : obs :=
  match g with GNone => ONone | GErr => OErr | GVal r => OVal (r_val r) (r_meta r) end.

Definition has (k : bytes) (l : list bytes) : bool := existsb (bytes_eqb k) l.

(** Class of a violation on key [k]: [spec] the write the specification
    selects, [lsm] the record the model's LSM lookup selects, [agree] whether
    the model predicted the observed output.
      1  the key was written at a GC yield point (F12: GC writes its stale copy back over it)
      3  the read fails in the value log: a deleted/expired entry whose file GC removed
      5  the read of a live entry fails in the value log because the LSM lookup selects the ORIGINAL
         entry of a record that GC has rewritten: original and rewritten copy carry the same
         internal key and sit in tables whose lookup order is not their age (ingest buffer,
         C01-F2 / C02-F2); the original's file was removed by a later GC pass (and, trusting the
         same lookup, a further pass may remove the rewritten copy's file too: the value is lost)
      11 an older write of the same version answers - or fails in the value log because GC has
         meanwhile removed the overwritten value's file - (C01-F2 / C02-F2: equal internal keys in tables
         whose order is not their age), not caused by GC
    (class 4 - Txn.Get reporting a zero-length value as absent once a table serves it - was retired
    with /repo 0719305; classes 2 and 12 - an older VERSION answering, after a GC write-back or after user writes in
    non-increasing version order - were retired with the repair of LSM.Get, /repo 2f52ea0; such a
    read is now a violation outside every class) *)
Definition classify (now : N) (a : acc) (k : bytes) (spec lsm : option rec) (agree txn : bool) (o : obs) : N :=
  if has k (a_raced a) then 1
  else if negb agree then 999
  else match o, lsm with
       | OErr, Some m =>
           if dead now m then 3
           else if is_ptr m &&
                   existsb (fun x => if bytes_eqb (r_key x) (r_key m) then
                                       if r_ver x =? r_ver m then
                                         if r_seq m <? r_seq x then is_ptr x else false
                                       else false
                                     else false)
                           (contents (d_lsm (a_db a)))
                then 5
           else match spec with
                | Some w => if (r_ver m =? r_ver w) && (r_seq m <? r_seq w) then 11 else 999
                | None => 999
                end
       | ONone, Some m =>
           match spec with
           | Some w => if (r_ver m =? r_ver w) && (r_seq m <? r_seq w) then 11 else 999
           | None => 999
           end
       | _, _ =>
           match spec, lsm with
           | Some w, Some m => if (r_ver m =? r_ver w) && (r_seq m <? r_seq w) then 11 else 999
           | _, _ => 999
           end
       end.

Definition read_step (now : N) (a : acc) (k : bytes) (v : N) (live txn : bool) (o : robs) : acc :=
  let d := a_db a in
  match to_obs (a_ws a) o with
  | None => flag a true false 0
  | Some ob =>
      let m := if txn then txn_get now d k v else if live then db_get_live now d k v else db_get d k v in
      let sp := if live then spec_get now (a_ws a) k v else spec_getv (a_ws a) k v in
      let agree := obs_eqb (gres_obs m) ob in
      let bad := negb (obs_eqb sp ob) in
      flag a (negb agree) bad
           (if bad then classify now a k (latest_at (a_ws a) k v) (get (d_lsm d) k v) agree txn ob else 0)
  end.

Definition keys_of (l : list rec) : list bytes := map r_key l.

(** an iterator item is one of the LSM's copies of that internal key, materialised *)
Definition item_model_ok (d : db) (ws : list rec) (it : item) : bool :=
  let '(k, ver, val, _) := it in
  match deref ws val with
  | None => false
  | Some b =>
      existsb (fun x => if bytes_eqb (r_key x) (unhex k) then
                          if r_ver x =? ver then
                            match resolve (d_vl d) x with GVal r => bytes_eqb (r_val r) b | _ => false end
                          else false
                        else false)
              (contents (d_lsm d))
  end.
Definition item_spec_ok (ws : list rec) (it : item) : bool :=
  let '(k, ver, val, _) := it in
  match deref ws val with
  | None => true
  | Some b => item_written_b ws (unhex k, ver, b)
  end.

Definition vref_eqb (a b : vref) : bool :=
  match a, b with
  | VH x, VH y => String.eqb x y
  | VS x, VS y => x =? y
  | _, _ => false
  end.
Definition item_eqb (x y : item) : bool :=
  let '(k, ver, val, m) := x in let '(k', ver', val', m') := y in
  String.eqb k k' && (ver =? ver') && vref_eqb val val' && (m =? m').
Fixpoint items_eqb (a b : list item) : bool :=
  match a, b with
  | [], [] => true
  | x :: a', y :: b' => item_eqb x y && items_eqb a' b'
  | _, _ => false
  end.

Definition res_of (r : gc_result) : N := match r with GcOk => 0 | GcErr => 1 end.

Definition step (c : cfg) (now : N) (a : acc) (o : xop) : acc :=
  let d := a_db a in
  let s := d_lsm d in
  match o with
  | XW batch =>
      {| a_db := db_write c d batch; a_ws := a_ws a ++ batch; a_mis := a_mis a; a_vio := a_vio a; a_known := a_known a;
         a_moved := a_moved a; a_raced := a_raced a |}
  | XGC bk fid nseq res =>
      let '(d', r) := rewrite c now d bk fid nseq in
      let moved := match gc_decide now d bk fid nseq with Some wb => keys_of wb | None => [] end in
      {| a_db := d'; a_ws := a_ws a; a_mis := a_mis a || negb (res_of r =? res); a_vio := a_vio a; a_known := a_known a;
         a_moved := moved ++ a_moved a; a_raced := a_raced a |}
  | XGCW bk fid nseq batch res =>
      let '(d', r) := rewrite_race c now d bk fid nseq batch in
      let moved := match gc_decide now d bk fid nseq with Some wb => keys_of wb | None => [] end in
      {| a_db := d'; a_ws := a_ws a ++ batch; a_mis := a_mis a || negb (res_of r =? res); a_vio := a_vio a; a_known := a_known a;
         a_moved := moved ++ a_moved a; a_raced := keys_of batch ++ a_raced a |}
  | XWr batch =>
      {| a_db := db_write_r c d batch; a_ws := a_ws a ++ map fst batch; a_mis := a_mis a; a_vio := a_vio a; a_known := a_known a;
         a_moved := a_moved a; a_raced := a_raced a |}
  | XGCr bk fid nseq res routes =>
      let '(d', r) := rewrite_r c now d bk fid nseq routes in
      let moved := match gc_decide now d bk fid nseq with Some wb => keys_of wb | None => [] end in
      {| a_db := d'; a_ws := a_ws a; a_mis := a_mis a || negb (res_of r =? res); a_vio := a_vio a; a_known := a_known a;
         a_moved := moved ++ a_moved a; a_raced := a_raced a |}
  | XGCWr bk fid nseq batch res routes =>
      let '(d', r) := rewrite_race_r c now d bk fid nseq batch routes in
      let moved := match gc_decide now d bk fid nseq with Some wb => keys_of wb | None => [] end in
      {| a_db := d'; a_ws := a_ws a ++ map fst batch; a_mis := a_mis a || negb (res_of r =? res); a_vio := a_vio a; a_known := a_known a;
         a_moved := moved ++ a_moved a; a_raced := keys_of (map fst batch) ++ a_raced a |}
  | XVl l => flag a (negb (vl_eqb (vl_layout (d_vl d)) l)) false 0
  | XRotate newid => upd a (with_lsm d (set_memid (set_maxfid (rotate s) (N.max (st_maxfid s) newid)) newid))
  | XFlush => upd a (with_lsm d (flush s))
  | XCompact k lvl top bot added => upd a (with_lsm d (compact s k lvl top bot added))
  | XReopen memid maxfid _ =>
      let d' := db_reopen d in
      flag (upd a (with_lsm d' (set_maxfid (d_lsm d') maxfid))) (negb (st_memid (d_lsm d') =? memid)) false 0
  | XLayout imms l0 lvls =>
      let ok := nlist_eqb (map fst (st_imms s)) imms && nlist_eqb (fids (st_l0 s)) l0 &&
                (Nat.eqb (List.length (st_lvls s)) (List.length lvls)) &&
                forallb (fun p => level_layout_ok (fst p) (snd p)) (combine (st_lvls s) lvls) in
      let s' := {| st_mem := st_mem s; st_memid := st_memid s; st_imms := st_imms s; st_l0 := st_l0 s;
                   st_lvls := map (fun p => adopt (fst p) (snd p)) (combine (st_lvls s) lvls);
                   st_maxfid := st_maxfid s |} in
      flag (upd a (with_lsm d (if ok then s' else s))) (negb ok) false 0
  | XGetV k v o => read_step now a k v false false o
  | XGetP k o => read_step now a k max_ver true false o
  | XGetT k ts o => read_step now a k ts true true o
  | XIter items =>
      flag a (negb (forallb (item_model_ok d (a_ws a)) items)) (negb (forallb (item_spec_ok (a_ws a)) items)) 999
  | XIterSame before after =>
      (* GC must not change what the iterator yields *)
      flag a false (negb (items_eqb before after)) 999
  end.

Definition replay (c : case) : acc :=
  fold_left (step (c_cfg c) (c_now c)) (c_ops c)
            {| a_db := init_db (c_cfg c) (c_memid c); a_ws := []; a_mis := false; a_vio := false; a_known := 0;
               a_moved := []; a_raced := [] |}.

(** [a_known = 999] marks a violation outside every known class. *)
Definition check (c : case) : verdict :=
  let a := replay c in
  mk_verdict (a_mis a) (a_vio a) (if a_known a =? 999 then 0 else a_known a).

(* compact constructors for the harness *)
Definition W (k : string) (ver : N) (v : string) (meta exp seq : N) : rec :=
  {| r_key := unhex k; r_ver := ver; r_val := unhex v; r_meta := meta; r_exp := exp; r_seq := seq |}.
Definition Rt (k : string) (ver bk : N) : bytes * N * N := (unhex k, ver, bk).
Definition G (k : string) (v : N) (o : robs) : xop := XGetV (unhex k) v o.
Definition GP (k : string) (o : robs) : xop := XGetP (unhex k) o.
Definition GT (k : string) (ts : N) (o : robs) : xop := XGetT (unhex k) ts o.
Definition Cs (memid now thr maxsz nb : N) (ops : list xop) : case :=
  {| c_memid := memid; c_now := now; c_cfg := {| c_thr := thr; c_max := maxsz; c_nb := nb |}; c_ops := ops |}.

(** Correspondence for C03 / C04: the harness interleaves logical transactions
    call by call against a real DB and reports every result; [check] compares
    them with the call-atomic model [Model.TxnOracle] (repaired oracle,
    [fixed = true]) and, independently of the model, with the trace oracle
    [trace_ok] (snapshot reads, conflict rule, serial replay) and the version
    oracle [dumps_ok] (all-or-nothing, increasing versions) of
    [Spec.SerialSpec]. *)
From Coq Require Export List NArith Bool String.
From NoKV Require Export Base.Bytes Spec.SerialSpec Model.TxnOracle Corr.Common.
Export ListNotations.
Local Open Scope N_scope.

Inductive obs :=
| RNil                                   (* the call returned no error *)
| RVal (v : option bytes)                (* Get: value / key not found *)
| RErr (e : err)
| RDump (l : list (N * option bytes))
| ROther                                 (* an error class the model does not know *)
| RHung.                                 (* the call did not return within the watchdog time (the run stops there) *)

Record case := {
  c_cfg : cfg;
  c_fps : list (bytes * N);              (* observed kv.MemHash of the keys used *)
  c_ops : list (op * obs) }.

Fixpoint fp_of (t : list (bytes * N)) (k : bytes) : N :=
  match t with
  | [] => 0
  | (k', h) :: t' => if bytes_eqb k' k then h else fp_of t' k
  end.

Definition err_eqb (a b : err) : bool :=
  match a, b with
  | EConflict, EConflict | ETooBig, ETooBig | EBlocked, EBlocked | EReadOnly, EReadOnly
  | EDiscarded, EDiscarded | ECommitDiscarded, ECommitDiscarded | EBadOp, EBadOp | EHang, EHang
  | EApply, EApply => true
  | _, _ => false
  end.

Fixpoint dump_eqb (a b : list (N * option bytes)) : bool :=
  match a, b with
  | [], [] => true
  | (v, x) :: a', (w, y) :: b' => (v =? w) && obytes_eqb x y && dump_eqb a' b'
  | _, _ => false
  end.

Definition out_matches (o : out) (r : obs) : bool :=
  match o, r with
  | OOk, RNil | OCommitted _, RNil => true
  | ORead v, RVal w => obytes_eqb v w
  | OErr e, RErr f => err_eqb e f
  | ODump a, RDump b => dump_eqb a b
  | _, _ => false
  end.

Fixpoint agree (c : case) (s : state) (l : list (op * obs)) : bool :=
  match l with
  | [] => true
  | (o, r) :: l' =>
      let '(s', x) := step true (fp_of (c_fps c)) (c_cfg c) s o in
      out_matches x r && agree c s' l'
  end.

Definition is_nil (r : obs) : bool := match r with RNil => true | _ => false end.

(** the observed calls as a trace of the specification's oracle *)
Fixpoint to_trace (l : list (op * obs)) : list tcall :=
  match l with
  | [] => []
  | (o, r) :: l' =>
      match o, r with
      | Begin id u, RNil => [TBegin id u]
      | Get id k, RVal v => [TGet id k (Some v)]
      | Get id k, _ => [TGet id k None]
      | Put id k v, _ => [TWrite id k v (is_nil r)]
      | Commit id, _ => [TCommit id (is_nil r)]
      | Discard id, _ => [TDiscard id]
      | Dump k, RDump ((_, x) :: _) => [TFinal k x]
      | Dump k, RDump [] => [TFinal k None]
      | _, _ => []
      end ++ to_trace l'
  end.

(** the dumps after the last call that is not a dump *)
Fixpoint final_dumps (l : list (op * obs)) (acc : dumps) : dumps :=
  match l with
  | [] => acc
  | (Dump k, RDump d) :: l' => final_dumps l' (dump_set acc k d)
  | _ :: l' => final_dumps l' []
  end.

Definition has_final_dumps (l : list (op * obs)) : bool :=
  match final_dumps l [] with [] => false | _ => true end.

Definition spec_ok (c : case) : bool :=
  let tr := to_trace (c_ops c) in
  trace_ok (cf_detect (c_cfg c)) tr &&
  (negb (has_final_dumps (c_ops c)) ||
   dumps_ok (map sr_writes (os_hist (orun (cf_detect (c_cfg c)) tr))) (final_dumps (c_ops c) [])).

Definition is_hung (r : obs) : bool := match r with RHung => true | _ => false end.
Definition no_hang (c : case) : bool := forallb (fun e => negb (is_hung (snd e))) (c_ops c).

(** a call that never returned is a model mismatch here (the model's calls always return);
    it is the specification violation of C37 ([Corr.RunClose]). *)
Definition check (c : case) : verdict :=
  mk_verdict (negb (agree c st_init (c_ops c))) (negb (spec_ok c)) 0.

(* compact constructors for the harness *)
Definition K (s : string) : bytes := unhex s.
Definition V (s : string) : option bytes := Some (unhex s).
Definition Cfg (d : bool) (mc ms vt : N) : cfg := {| cf_detect := d; cf_maxcount := mc; cf_maxsize := ms; cf_vthr := vt |}.
Definition FP (k : string) (h : N) : string * N := (k, h).
Definition Cs (g : cfg) (f : list (string * N)) (l : list (op * obs)) : case :=
  {| c_cfg := g; c_fps := map (fun e => (unhex (fst e), snd e)) f; c_ops := l |}.
Definition B (id : N) (u : bool) := (Begin id u, RNil).
Definition Bh (id : N) (u : bool) := (Begin id u, RHung).
Definition Xh (id : N) := (Discard id, RHung).
Definition Clh := (Close, RHung).
Definition Roh := (Reopen, RHung).
Definition G (id : N) (k : string) (r : obs) := (Get id (unhex k), r).
Definition S (id : N) (k v : string) (r : obs) := (Put id (unhex k) (Some (unhex v)), r).
Definition D (id : N) (k : string) (r : obs) := (Put id (unhex k) None, r).
Definition C (id : N) (r : obs) := (Commit id, r).
Definition X (id : N) := (Discard id, RNil).
Definition Cl := (Close, RNil).
Definition Ro := (Reopen, RNil).
Definition Fw := (FailWal, RNil).
Definition Du (k : string) (l : list (N * option bytes)) := (Dump (unhex k), RDump l).
Definition Vl (s : string) : obs := RVal (Some (unhex s)).
Definition Nf : obs := RVal None.

(** Correspondence for C37: writers, the throttle and Close run as threads of
    the controlled scheduler on a real DB (the commit worker is free-running:
    in the model it is picked right after every step that gives it work).
    After every grant the harness reports how many calls of each writer have
    returned and whether Close has returned; [check] replays the picks in
    [Model.CommitQueue] and compares, and compares the final results
    (ok / error) of every call.  Independently of the model: every call and
    Close must have returned at the end, and after Close has returned no
    writer may need more than 3 of its own grants to return from a call. *)
From Coq Require Export List NArith Bool String.
From NoKV Require Export Base.Bytes Base.Sched Spec.SerialSpec Spec.Linearizable Model.CommitQueue Corr.Common.
From NoKV Require Model.TxnOracle Corr.RunTxn.
Export ListNotations.
Local Open Scope N_scope.

Record group := {
  gr_tid : N; gr_ran : bool; gr_picks : list N;
  gr_ret : list N;            (* calls returned so far, per writer (threads 3, 4, ...) *)
  gr_closed : bool }.         (* Close has returned *)

Record scase := { c_progs : list (list cop); c_groups : list group; c_results : list (list bool) }.

Definition progs_of (l : list (list cop)) (t : N) : list cop :=
  if t <? 3 then [] else nth (N.to_nat (t - 3)) l [].

Definition returned_of (g : gstate) (t : N) : list lrec :=
  filter (fun e => (lr_tid e =? t) && match lr_ret e with Some _ => true | None => false end) (g_lin g).

Fixpoint counts_match (g : gstate) (t : N) (l : list N) : bool :=
  match l with
  | [] => true
  | n :: l' => (N.of_nat (List.length (returned_of g t)) =? n) && counts_match g (t + 1) l'
  end.

Definition is_done (c : closepc) : bool := match c with ClDone => true | _ => false end.

Fixpoint replay_groups (g : gstate) (l : list group) : option gstate :=
  match l with
  | [] => Some g
  | x :: l' =>
      let g' := run tstep g (gr_picks x) in
      if counts_match g' 3 (gr_ret x) && Bool.eqb (is_done (g_close g')) (gr_closed x) then replay_groups g' l'
      else None
  end.

Definition ok_of (e : lrec) : bool := match lr_kind e with LWrite _ _ ok => ok | LRead _ _ => true end.

Fixpoint bools_eqb (a b : list bool) : bool :=
  match a, b with
  | [], [] => true
  | x :: a', y :: b' => Bool.eqb x y && bools_eqb a' b'
  | _, _ => false
  end.

Fixpoint results_match (g : gstate) (t : N) (l : list (list bool)) : bool :=
  match l with
  | [] => true
  | r :: l' => bools_eqb (rev (map ok_of (returned_of g t))) r && results_match g (t + 1) l'
  end.

Definition agree (c : scase) : bool :=
  match replay_groups (g_init 1024 64 (progs_of (c_progs c))) (c_groups c) with
  | Some g => results_match g 3 (c_results c)
  | None => false
  end.

(** model-independent oracle *)
Fixpoint stall_get (l : list (N * N)) (t : N) : N :=
  match l with [] => 0 | (t', n) :: l' => if t' =? t then n else stall_get l' t end.

Fixpoint late_ok (l : list group) (prev_ret : list N) (closed_before : bool) (stalls : list (N * N)) : bool :=
  match l with
  | [] => true
  | x :: l' =>
      let t := gr_tid x in
      let before := nth (N.to_nat (t - 3)) prev_ret 0 in
      let after := nth (N.to_nat (t - 3)) (gr_ret x) 0 in
      let s := if closed_before && gr_ran x && (3 <=? t) then
                 if before <? after then 0 else stall_get stalls t + 1
               else 0 in
      (s <? 3) && late_ok l' (gr_ret x) (gr_closed x) ((t, s) :: stalls)
  end.

Definition all_returned (c : scase) : bool :=
  match rev (c_groups c) with
  | [] => true
  | x :: _ =>
      forallb (fun p => N.of_nat (List.length (fst p)) =? snd p) (combine (c_progs c) (gr_ret x))
      && (N.of_nat (List.length (c_progs c)) =? N.of_nat (List.length (gr_ret x)))
  end.

Definition spec_ok (c : scase) : bool :=
  all_returned c && late_ok (c_groups c) (map (fun _ => 0) (c_progs c)) false [].

(** Second kind of case: transactional calls around a rejected commit (too
    large for one request, commit queue closed), each executed under a
    watchdog.  The model is the call-atomic [Model.TxnOracle] (a rejected commit
    releases its commit timestamp: [orc_done_commit] on every exit of Commit;
    [C37_begin_never_waits]); the specification violated by a call that does
    not return is C37's "operations always finish". *)
(** Third kind: LSM maintenance calls executed under a watchdog (flush, a
    compaction with [tables] output tables, then Close).  The compaction
    executor is not part of the model (C37 is proof-partial); the case carries
    only the specification's verdict: every call returned. *)
Record mcase := { m_tables : N; m_flush : bool; m_compactions : list bool; m_reads_ok : bool; m_close : bool }.

(** Fourth kind: free-running concurrent writers of large inline values (the
    commit worker's batches hit their byte budget), then Close, all under a
    watchdog.  Verdict of the specification only: every Set returned, every
    acknowledged value is readable, Close returned. *)
Record wcase := { w_writers : N; w_ops : N; w_returned : N; w_reads_ok : bool; w_close : bool }.

(** Fifth kind: write, Close, reopen, one transactional commit, read back -
    executed in a CHILD process (utils.AssertTrue ends the process and cannot be
    caught).  [r_maxver] is the largest version the child stored before the
    reopen; [r_last] the last stage it completed.  The model is
    [TxnOracle.commit_after_open] (64-bit arithmetic of initCommitState /
    newCommitTs).  Known finding C37-F2 (class 2): the store holds the plain API's
    sentinel version, the model predicts that the timestamp counter wraps and the
    assertion fails, and the child died exactly in Commit. *)
Inductive rstage := RsStart | RsOpen1 | RsWrite | RsClose | RsOpen2 | RsBegin | RsSet | RsCommit | RsRead | RsDone.
Record rcase := { r_maxver : N; r_last : rstage; r_exit_ok : bool; r_commit_ok : bool; r_read_ok : bool }.

Definition is_stage_set (x : rstage) : bool := match x with RsSet => true | _ => false end.
Definition is_stage_done (x : rstage) : bool := match x with RsDone => true | _ => false end.

Definition died_in_commit (c : rcase) : bool := is_stage_set (r_last c) && negb (r_exit_ok c).
Definition finished_ok (c : rcase) : bool :=
  is_stage_done (r_last c) && r_exit_ok c && r_commit_ok c && r_read_ok c.

Definition check_reopen (c : rcase) : verdict :=
  let fatal := match TxnOracle.commit_after_open (r_maxver c) with TxnOracle.RcFatal => true | _ => false end in
  let mism := if fatal then negb (died_in_commit c) else negb (finished_ok c) in
  let viol := negb (finished_ok c) in
  mk_verdict mism viol
    (if viol && died_in_commit c && (r_maxver c =? TxnOracle.sentinel_version) && fatal then 2 else 0).

Inductive case :=
| SchedCase (c : scase)
| TxnCase (c : RunTxn.case)
| MaintCase (c : mcase)
| WritersCase (c : wcase)
| ReopenCase (c : rcase).

Definition check (c : case) : verdict :=
  match c with
  | SchedCase c => mk_verdict (negb (agree c)) (negb (spec_ok c)) 0
  | TxnCase c =>
      let v := RunTxn.check c in
      mk_verdict (v_mismatch v) (v_violation v || negb (RunTxn.no_hang c)) 0
  | MaintCase c =>
      mk_verdict (negb (m_reads_ok c))
                 (negb (m_flush c && forallb (fun b => b) (m_compactions c) && m_close c)) 0
  | WritersCase c =>
      mk_verdict (negb (w_reads_ok c))
                 (negb ((w_returned c =? w_writers c * w_ops c) && w_close c)) 0
  | ReopenCase c => check_reopen c
  end.

(* compact constructors *)
Definition St (k v : string) (big : bool) : cop := CSet (unhex k) (Some (unhex v)) false big.
Definition Gr (t : N) (ran : bool) (p : list N) (r : list N) (cl : bool) : group :=
  {| gr_tid := t; gr_ran := ran; gr_picks := p; gr_ret := r; gr_closed := cl |}.
Definition Cs (p : list (list cop)) (g : list group) (r : list (list bool)) : case :=
  SchedCase {| c_progs := p; c_groups := g; c_results := r |}.

Definition Rp (maxver : N) (last : rstage) (exit_ok commit_ok read_ok : bool) : case :=
  ReopenCase {| r_maxver := maxver; r_last := last; r_exit_ok := exit_ok; r_commit_ok := commit_ok; r_read_ok := read_ok |}.
Definition Wr (writers ops returned : N) (reads close : bool) : case :=
  WritersCase {| w_writers := writers; w_ops := ops; w_returned := returned; w_reads_ok := reads; w_close := close |}.
Definition Mt (tables : N) (flush : bool) (comp : list bool) (reads close : bool) : case :=
  MaintCase {| m_tables := tables; m_flush := flush; m_compactions := comp; m_reads_ok := reads; m_close := close |}.

(* transactional cases: the constructors of Corr.RunTxn with the prefix T *)
Definition TCs g f l : case := TxnCase (RunTxn.Cs g f l).
Notation TCfg := RunTxn.Cfg.
Notation TFP := RunTxn.FP.
Notation TV := RunTxn.V.
Notation TB := RunTxn.B.
Notation TBh := RunTxn.Bh.
Notation TG := RunTxn.G.
Notation TS := RunTxn.S.
Notation TD := RunTxn.D.
Notation TC := RunTxn.C.
Notation TX := RunTxn.X.
Notation TXh := RunTxn.Xh.
Notation TCl := RunTxn.Cl.
Notation TClh := RunTxn.Clh.
Notation TRo := RunTxn.Ro.
Notation TRoh := RunTxn.Roh.
Notation TFw := RunTxn.Fw.
Notation TDu := RunTxn.Du.
Notation TVl := RunTxn.Vl.
Notation TNf := RunTxn.Nf.
Notation RNil := RunTxn.RNil.
Notation RErr := RunTxn.RErr.
Notation RHung := RunTxn.RHung.
Notation ROther := RunTxn.ROther.
Notation EConflict := TxnOracle.EConflict.
Notation ETooBig := TxnOracle.ETooBig.
Notation EBlocked := TxnOracle.EBlocked.
Notation EReadOnly := TxnOracle.EReadOnly.
Notation EDiscarded := TxnOracle.EDiscarded.
Notation ECommitDiscarded := TxnOracle.ECommitDiscarded.
Notation EApply := TxnOracle.EApply.
